//! E3 for the language server: the shipped `emmylua_ls` binary (guard off) driven over real stdio with
//! LSP framing. Covers what the SimServer does not: `run_ls`'s initialize handshake, the queue of messages
//! that arrive while the workspace is still being initialised (`pending_messages`), the real multi-threaded
//! tokio runtime, shutdown / exit, and process death.
//!
//! History recorded at the client boundary: every request id sent (with method and params shape) and every
//! response frame received. Oracle (C24): exactly one response per request id.
//!   * duplicates and process death with unanswered requests are definitive observations;
//!   * "never answered" is restated as bounded progress: all requests unanswered 60 s after the burst are
//!     followed by a sentinel request; if the sentinel *is* answered and the earlier request still is not
//!     20 s after that, the server demonstrably runs and has skipped it -> violation; if the sentinel is not
//!     answered either, the run is inconclusive (`stdio-not-settled`), never a violation.

use crate::proc;
use crate::rng::Rng;
use crate::sim::path_uri;
use crate::simscript::{REQ_KINDS, req_params};
use serde_json::{Value, json};
use std::collections::BTreeMap;
use std::io::{BufRead, BufReader, Read, Write};
use std::process::{Command, Stdio};
use std::sync::mpsc::{Receiver, RecvTimeoutError, channel};
use std::time::{Duration, Instant};

/// request kinds that are cheap on a five-file workspace (the bounded-progress rule needs that)
const CHEAP: &[&str] = &[
    "textDocument/hover",
    "textDocument/documentSymbol",
    "textDocument/definition",
    "textDocument/references",
    "textDocument/completion",
    "textDocument/semanticTokens/full",
    "textDocument/foldingRange",
    "textDocument/documentHighlight",
    "textDocument/codeAction",
    "textDocument/inlayHint",
    "textDocument/signatureHelp",
    "textDocument/formatting",
    "workspace/symbol",
    "textDocument/codeLens",
    "textDocument/selectionRange",
    "textDocument/prepareRename",
    "textDocument/diagnostic",
    "textDocument/rangeFormatting",
    "workspace/executeCommand",
];

#[derive(Clone, Debug)]
pub struct StdioCase {
    pub nfiles: usize,
    /// 0 valid; 1 capabilities wrong-typed; 2 params null; 3 rootUri wrong-typed; 4 processId wrong-typed
    pub init_mal: u8,
    /// send one request before `initialize` (must be answered with an error, once)
    pub pre_init_request: bool,
    /// (kind index into CHEAP or CHEAP.len() for an unknown method, doc, malformed shape), sent right after `initialized`
    pub burst1: Vec<(usize, usize, u8)>,
    /// second burst after the first one has been answered
    pub burst2: Vec<(usize, usize, u8)>,
    /// indexes (into the sent requests) to cancel right after sending
    pub cancels: Vec<usize>,
    pub with_emmyrc: bool,
    pub skip_initialized: bool,
    /// C27 over stdio: per document the notifications sent right after `initialized` (so they are queued while
    /// the workspace is initialised): 'c' = didChange with a new unique text, 'x' = didClose, 'o' = didOpen with a
    /// new unique text. Every document starts with a didOpen (version 1).
    pub edits: Vec<String>,
}

pub fn gen_case(rng: &mut Rng, i: usize) -> StdioCase {
    let nfiles = rng.range(1, 5);
    let burst = |rng: &mut Rng, n: usize| -> Vec<(usize, usize, u8)> {
        (0..n)
            .map(|_| {
                let k = if rng.chance(1, 10) { CHEAP.len() } else { rng.below(CHEAP.len()) };
                let mal = if rng.chance(1, 4) { rng.range(1, 3) as u8 } else { 0 };
                (k, rng.below(nfiles), mal)
            })
            .collect()
    };
    let n1 = rng.range(2, 14);
    let b1 = burst(rng, n1);
    let n2 = rng.range(0, 8);
    let b2 = burst(rng, n2);
    let ncancel = rng.below(3);
    StdioCase {
        nfiles,
        init_mal: if i % 6 == 5 { rng.range(1, 4) as u8 } else { 0 },
        pre_init_request: rng.chance(1, 4),
        cancels: (0..ncancel).map(|_| rng.below(b1.len())).collect(),
        burst1: b1,
        burst2: b2,
        with_emmyrc: rng.bool(),
        // (a client that omits `initialized` violates the protocol; lsp-server then ends the session with a
        // ProtocolError, which is not a C24 matter — the switch exists for replays only)
        skip_initialized: false,
        edits: Vec::new(),
    }
}

/// A case with document traffic for the C27 clause.
pub fn gen_case_with_edits(rng: &mut Rng, i: usize) -> StdioCase {
    let mut c = gen_case(rng, i);
    c.init_mal = 0;
    c.pre_init_request = false;
    c.edits = (0..c.nfiles)
        .map(|_| {
            let n = rng.range(0, 6);
            let mut open = true;
            let mut s = String::new();
            for _ in 0..n {
                if open {
                    if rng.chance(1, 4) {
                        s.push('x');
                        open = false;
                    } else {
                        s.push('c');
                    }
                } else {
                    s.push('o');
                    open = true;
                }
            }
            s
        })
        .collect();
    c
}

pub fn case_to_json(c: &StdioCase) -> Value {
    json!({"stdio": true, "nfiles": c.nfiles, "init_mal": c.init_mal, "pre_init_request": c.pre_init_request, "burst1": c.burst1, "burst2": c.burst2,
           "cancels": c.cancels, "with_emmyrc": c.with_emmyrc, "skip_initialized": c.skip_initialized, "edits": c.edits})
}

pub fn case_from_json(v: &Value) -> StdioCase {
    let b = |x: &Value| -> Vec<(usize, usize, u8)> {
        x.as_array().map(|a| a.iter().map(|t| (t[0].as_u64().unwrap_or(0) as usize, t[1].as_u64().unwrap_or(0) as usize, t[2].as_u64().unwrap_or(0) as u8)).collect()).unwrap_or_default()
    };
    StdioCase {
        nfiles: v["nfiles"].as_u64().unwrap_or(1) as usize,
        init_mal: v["init_mal"].as_u64().unwrap_or(0) as u8,
        pre_init_request: v["pre_init_request"].as_bool().unwrap_or(false),
        burst1: b(&v["burst1"]),
        burst2: b(&v["burst2"]),
        cancels: v["cancels"].as_array().map(|a| a.iter().map(|x| x.as_u64().unwrap_or(0) as usize).collect()).unwrap_or_default(),
        with_emmyrc: v["with_emmyrc"].as_bool().unwrap_or(false),
        skip_initialized: v["skip_initialized"].as_bool().unwrap_or(false),
        edits: v["edits"].as_array().map(|a| a.iter().map(|x| x.as_str().unwrap_or("").to_string()).collect()).unwrap_or_default(),
    }
}

#[derive(Clone, Debug, Default)]
pub struct StdioOutcome {
    /// (id, method, params shape) in send order
    pub sent: Vec<(i64, String, u8)>,
    /// id -> responses received
    pub responses: BTreeMap<i64, usize>,
    pub error_responses: usize,
    pub server_requests: usize,
    pub notifications: usize,
    /// the process ended before `exit` was sent: status string
    pub died_early: Option<String>,
    pub exit_status: Option<String>,
    /// sentinel not answered / exit not observed in time
    pub inconclusive: Option<String>,
    /// sentinel answered although earlier requests were not
    pub sentinel_overtook: bool,
    pub stderr_tail: String,
    pub queued_during_init: bool,
    /// C27: per document (index, open at the end?, marker of the last text sent, all markers sent, documentSymbol result)
    pub doc_views: Vec<(usize, bool, String, Vec<String>, Option<String>)>,
}

struct Client {
    child: std::process::Child,
    stdin: Option<std::process::ChildStdin>,
    rx: Receiver<Value>,
    next_id: i64,
    out: StdioOutcome,
    eof: bool,
    results: BTreeMap<i64, Value>,
}

fn frame(v: &Value) -> Vec<u8> {
    let body = v.to_string();
    format!("Content-Length: {}\r\n\r\n{}", body.len(), body).into_bytes()
}

impl Client {
    fn send(&mut self, v: &Value) -> bool {
        match self.stdin.as_mut() {
            Some(s) => s.write_all(&frame(v)).and_then(|_| s.flush()).is_ok(),
            None => false,
        }
    }
    fn request(&mut self, method: &str, params: Value, shape: u8) -> i64 {
        let id = self.next_id;
        self.next_id += 1;
        self.out.sent.push((id, method.to_string(), shape));
        self.send(&json!({"jsonrpc": "2.0", "id": id, "method": method, "params": params}));
        id
    }
    fn notify(&mut self, method: &str, params: Value) {
        self.send(&json!({"jsonrpc": "2.0", "method": method, "params": params}));
    }
    /// handle one incoming message
    fn on_message(&mut self, m: Value) {
        let has_method = m.get("method").is_some();
        let id = m.get("id").cloned();
        if has_method && id.is_some() {
            // server -> client request: answer it so that the server never waits for us
            self.out.server_requests += 1;
            let result = if m["method"] == "workspace/configuration" {
                let n = m["params"]["items"].as_array().map(|a| a.len()).unwrap_or(1);
                Value::Array(vec![Value::Null; n])
            } else {
                Value::Null
            };
            self.send(&json!({"jsonrpc": "2.0", "id": id.unwrap(), "result": result}));
        } else if has_method {
            self.out.notifications += 1;
        } else if let Some(id) = id {
            if let Some(n) = id.as_i64() {
                *self.out.responses.entry(n).or_default() += 1;
                self.results.insert(n, m.get("result").cloned().unwrap_or(Value::Null));
            } else {
                *self.out.responses.entry(-1).or_default() += 1;
            }
            if m.get("error").is_some() {
                self.out.error_responses += 1;
            }
        }
    }
    fn unanswered(&self) -> Vec<i64> {
        self.out.sent.iter().filter(|(id, _, _)| self.out.responses.get(id).copied().unwrap_or(0) == 0).map(|(id, _, _)| *id).collect()
    }
    /// pump until `done` holds, EOF, or the deadline; returns true if `done` held
    fn pump_until(&mut self, secs: f64, done: impl Fn(&Client) -> bool) -> bool {
        let deadline = Instant::now() + Duration::from_secs_f64(secs);
        loop {
            if done(self) {
                return true;
            }
            let now = Instant::now();
            if now >= deadline || self.eof {
                return done(self);
            }
            match self.rx.recv_timeout((deadline - now).min(Duration::from_millis(200))) {
                Ok(m) => self.on_message(m),
                Err(RecvTimeoutError::Timeout) => {}
                Err(RecvTimeoutError::Disconnected) => {
                    self.eof = true;
                }
            }
        }
    }
    fn status(&mut self) -> Option<String> {
        use std::os::unix::process::ExitStatusExt;
        match self.child.try_wait() {
            Ok(Some(st)) => Some(match (st.code(), st.signal()) {
                (Some(c), _) => format!("exit:{c}"),
                (_, Some(s)) => format!("signal:{s}"),
                _ => "unknown".into(),
            }),
            _ => None,
        }
    }
}

fn file_text(i: usize) -> String {
    format!(
        "---@class Stdio{i}\n---@field n integer\nlocal M{i} = {{}}\n\n---@param a string\n---@return integer\nfunction M{i}.len(a)\n    return #a + {i}\nend\n\nlocal v = M{i}.len(\"x\")\nprint(v, undefined_global_{i})\nreturn M{i}\n"
    )
}

/// Text of document `i` at write number `w`: one function whose name is unique to (i, w).
fn versioned_text(i: usize, w: usize) -> (String, String) {
    let marker = format!("mark_d{i}_w{w}");
    (format!("local M = {{}}\nfunction M.{marker}(a)\n    return a\nend\nreturn M\n"), marker)
}

pub fn run_case(work: &str, shard: u32, case: &StdioCase) -> Result<StdioOutcome, String> {
    let bin = proc::repo_bin(work, "emmylua_ls")?;
    let dir = proc::scratch_dir(work, "c24-stdio", shard);
    let home = proc::fresh_home(&dir.join("home"));
    let ws = dir.join("ws");
    std::fs::create_dir_all(&ws).map_err(|e| e.to_string())?;
    let mut uris = Vec::new();
    for i in 0..case.nfiles {
        let p = ws.join(format!("m{i}.lua"));
        std::fs::write(&p, file_text(i)).map_err(|e| e.to_string())?;
        uris.push(path_uri(&p));
    }
    if case.with_emmyrc {
        let _ = std::fs::write(ws.join(".emmyrc.json"), "{\"diagnostics\": {\"globals\": [\"undefined_global_0\"]}}");
    }
    let mut cmd = Command::new(&bin);
    cmd.current_dir(&ws)
        .env_clear()
        .env("PATH", std::env::var("PATH").unwrap_or_else(|_| "/usr/bin:/bin".into()))
        .env("HOME", &home)
        .env("XDG_CONFIG_HOME", home.join(".config"))
        .env("XDG_CACHE_HOME", home.join(".cache"))
        .env("XDG_DATA_HOME", home.join(".local/share"))
        .stdin(Stdio::piped())
        .stdout(Stdio::piped())
        .stderr(Stdio::piped());
    let mut child = cmd.spawn().map_err(|e| format!("spawn: {e}"))?;
    let stdout = child.stdout.take().ok_or("no stdout")?;
    let mut stderr = child.stderr.take().ok_or("no stderr")?;
    let stdin = child.stdin.take();
    let (tx, rx) = channel::<Value>();
    std::thread::spawn(move || {
        let mut r = BufReader::new(stdout);
        loop {
            let mut len: Option<usize> = None;
            loop {
                let mut line = String::new();
                match r.read_line(&mut line) {
                    Ok(0) | Err(_) => return,
                    Ok(_) => {}
                }
                let t = line.trim_end();
                if t.is_empty() {
                    break;
                }
                if let Some(v) = t.strip_prefix("Content-Length:") {
                    len = v.trim().parse().ok();
                }
            }
            let Some(n) = len else { return };
            let mut buf = vec![0u8; n];
            if r.read_exact(&mut buf).is_err() {
                return;
            }
            if let Ok(v) = serde_json::from_slice::<Value>(&buf) {
                if tx.send(v).is_err() {
                    return;
                }
            }
        }
    });
    let (etx, erx) = channel::<String>();
    std::thread::spawn(move || {
        let mut all = Vec::new();
        let _ = stderr.read_to_end(&mut all);
        let s = String::from_utf8_lossy(&all).into_owned();
        let _ = etx.send(s.chars().rev().take(600).collect::<String>().chars().rev().collect());
    });
    let mut c = Client { child, stdin, rx, next_id: 1, out: StdioOutcome::default(), eof: false, results: BTreeMap::new() };

    // ---- a request before initialize: lsp-server answers it with ServerNotInitialized ----
    if case.pre_init_request {
        c.request("textDocument/hover", req_params("textDocument/hover", &uris[0], 0, 0), 0);
    }
    // ---- initialize ----
    let mut init = json!({
        "processId": null,
        "rootUri": path_uri(&ws).as_str(),
        "capabilities": {"workspace": {"configuration": true, "workspaceFolders": true}, "textDocument": {"publishDiagnostics": {}}},
        "workspaceFolders": [{"uri": path_uri(&ws).as_str(), "name": "ws"}],
    });
    match case.init_mal {
        1 => init["capabilities"] = json!(5),
        2 => init = Value::Null,
        3 => init["rootUri"] = json!({"not": "a string"}),
        4 => init["processId"] = json!("seven"),
        _ => {}
    }
    let init_id = c.request("initialize", init, case.init_mal);
    let got_init = c.pump_until(60.0, |c| c.out.responses.contains_key(&init_id));
    let finish = |mut c: Client, erx: Receiver<String>, dir: std::path::PathBuf| -> StdioOutcome {
        // make sure the process is gone
        c.stdin = None;
        let t0 = Instant::now();
        while c.status().is_none() && t0.elapsed() < Duration::from_secs(10) {
            std::thread::sleep(Duration::from_millis(50));
        }
        if c.status().is_none() {
            let _ = c.child.kill();
            let _ = c.child.wait();
        }
        // late frames
        while let Ok(m) = c.rx.recv_timeout(Duration::from_millis(200)) {
            c.on_message(m);
        }
        c.out.stderr_tail = erx.recv_timeout(Duration::from_secs(2)).unwrap_or_default();
        let _ = std::fs::remove_dir_all(&dir);
        c.out
    };
    if case.init_mal != 0 {
        // the server may refuse: then it must have answered the initialize request (with an error) before it goes
        if !got_init {
            match c.status() {
                Some(st) => c.out.died_early = Some(st),
                None => c.out.inconclusive = Some("stdio-initialize-not-answered-in-60s".into()),
            }
        }
        if got_init && c.status().is_none() && c.out.error_responses == 0 {
            // accepted the odd params: go on with a normal shutdown
            c.notify("initialized", json!({}));
            let sid = c.request("shutdown", Value::Null, 0);
            c.pump_until(60.0, |c| c.out.responses.contains_key(&sid));
            c.notify("exit", Value::Null);
        }
        return Ok(finish(c, erx, dir));
    }
    if !got_init {
        match c.status() {
            Some(st) => c.out.died_early = Some(st),
            None => c.out.inconclusive = Some("stdio-initialize-not-answered-in-60s".into()),
        }
        return Ok(finish(c, erx, dir));
    }
    if !case.skip_initialized {
        c.notify("initialized", json!({}));
    }
    // ---- burst 1: arrives while the workspace is being initialised (queued) or right after ----
    for (i, u) in uris.iter().enumerate() {
        c.notify("textDocument/didOpen", json!({"textDocument": {"uri": u.as_str(), "languageId": "lua", "version": 1, "text": file_text(i)}}));
    }
    // ---- C27 traffic: queued behind the didOpen above while the workspace is being initialised ----
    let mut doc_state: Vec<(bool, String, Vec<String>)> = (0..uris.len()).map(|_| (true, String::new(), Vec::new())).collect();
    if !case.edits.is_empty() {
        let mut version = 1;
        let mut pos: Vec<usize> = vec![0; uris.len()];
        loop {
            let mut progressed = false;
            for (i, u) in uris.iter().enumerate() {
                let ops: Vec<char> = case.edits.get(i).map(|s| s.chars().collect()).unwrap_or_default();
                if pos[i] >= ops.len() {
                    continue;
                }
                progressed = true;
                version += 1;
                let w = pos[i] + 2;
                match ops[pos[i]] {
                    'c' => {
                        let (t, m) = versioned_text(i, w);
                        c.notify("textDocument/didChange", json!({"textDocument": {"uri": u.as_str(), "version": version}, "contentChanges": [{"text": t}]}));
                        doc_state[i].1 = m.clone();
                        doc_state[i].2.push(m);
                    }
                    'x' => {
                        c.notify("textDocument/didClose", json!({"textDocument": {"uri": u.as_str()}}));
                        doc_state[i].0 = false;
                    }
                    _ => {
                        let (t, m) = versioned_text(i, w);
                        c.notify("textDocument/didOpen", json!({"textDocument": {"uri": u.as_str(), "languageId": "lua", "version": version, "text": t}}));
                        doc_state[i].0 = true;
                        doc_state[i].1 = m.clone();
                        doc_state[i].2.push(m);
                    }
                }
                pos[i] += 1;
            }
            if !progressed {
                break;
            }
        }
    }
    let send_burst = |c: &mut Client, b: &[(usize, usize, u8)], cancels: &[usize]| {
        let mut ids = Vec::new();
        for (n, (k, d, mal)) in b.iter().enumerate() {
            let id = if *k >= CHEAP.len() {
                c.request("verif/unknownMethod", json!({"x": 1}), 0)
            } else {
                debug_assert!(REQ_KINDS.contains(&CHEAP[*k]));
                c.request(CHEAP[*k], req_params(CHEAP[*k], &uris[*d % uris.len()], *mal, n), *mal)
            };
            ids.push(id);
            if cancels.contains(&n) {
                c.notify("$/cancelRequest", json!({"id": id}));
            }
        }
        ids
    };
    send_burst(&mut c, &case.burst1, &case.cancels);
    c.out.queued_during_init = true;
    let settle = |c: &mut Client| {
        if c.pump_until(60.0, |c| c.unanswered().is_empty()) {
            return;
        }
        if c.eof || c.status().is_some() {
            return;
        }
        // bounded progress: is the server alive and idle?
        let s = c.request("verif/sentinel", json!({}), 0);
        if !c.pump_until(60.0, |c| c.out.responses.contains_key(&s)) {
            c.out.inconclusive = Some("stdio-not-settled".into());
            return;
        }
        if !c.pump_until(20.0, |c| c.unanswered().is_empty()) {
            c.out.sentinel_overtook = true;
        }
    };
    settle(&mut c);
    if c.out.inconclusive.is_none() && !c.eof && c.status().is_none() && !c.out.sentinel_overtook {
        send_burst(&mut c, &case.burst2, &[]);
        settle(&mut c);
    }
    if !case.edits.is_empty() && c.out.inconclusive.is_none() && !c.eof && c.status().is_none() && !c.out.sentinel_overtook {
        // the protocol-boundary view of what each open document contains now
        let mut ids = Vec::new();
        for (i, u) in uris.iter().enumerate() {
            if doc_state[i].0 && !doc_state[i].1.is_empty() {
                ids.push((i, c.request("textDocument/documentSymbol", json!({"textDocument": {"uri": u.as_str()}}), 0)));
            }
        }
        settle(&mut c);
        for (i, id) in ids {
            let r = c.results.get(&id).map(|v| v.to_string());
            c.out.doc_views.push((i, doc_state[i].0, doc_state[i].1.clone(), doc_state[i].2.clone(), r));
        }
    }
    if let Some(st) = c.status() {
        c.out.died_early = Some(st);
        return Ok(finish(c, erx, dir));
    }
    if c.out.inconclusive.is_some() {
        return Ok(finish(c, erx, dir));
    }
    // ---- shutdown / exit ----
    let sid = c.request("shutdown", Value::Null, 0);
    if !c.pump_until(60.0, |c| c.out.responses.contains_key(&sid)) && c.status().is_none() && !c.eof {
        c.out.inconclusive = Some("stdio-shutdown-not-answered-in-60s".into());
    }
    if let Some(st) = c.status() {
        if !c.out.responses.contains_key(&sid) {
            c.out.died_early = Some(st);
        }
    }
    c.notify("exit", Value::Null);
    let t0 = Instant::now();
    while c.status().is_none() && t0.elapsed() < Duration::from_secs(40) {
        c.pump_until(0.2, |_| false);
    }
    c.out.exit_status = c.status();
    Ok(finish(c, erx, dir))
}

/// (signature, detail) pairs
pub fn oracle(o: &StdioOutcome) -> Vec<(String, String)> {
    let shape = |m: u8| match m {
        0 => "valid",
        1 => "wrong-typed",
        2 => "null",
        3 => "missing-field",
        _ => "odd",
    };
    let mut v = Vec::new();
    for (id, method, mal) in &o.sent {
        let n = o.responses.get(id).copied().unwrap_or(0);
        if n > 1 {
            v.push((format!("C24:stdio:{n}-responses:method={method}:params={}", shape(*mal)), format!("request id {id} received {n} responses")));
        }
        if n == 0 {
            if let Some(st) = &o.died_early {
                let st = if st.starts_with("signal") { st.clone() } else { "exit".to_string() };
                v.push((
                    format!("C24:stdio:process-ended-with-unanswered-request:method={method}:params={}:{st}", shape(*mal)),
                    format!("the server process ended ({:?}) before answering request id {id} ({method}); stderr tail: {}", o.died_early, o.stderr_tail),
                ));
            } else if o.sentinel_overtook && method != "verif/sentinel" {
                v.push((
                    format!("C24:stdio:no-response:method={method}:params={}", shape(*mal)),
                    format!("request id {id} ({method}) unanswered 80 s after it was sent although a later sentinel request was answered"),
                ));
            }
        }
    }
    for (id, n) in &o.responses {
        if !o.sent.iter().any(|(i, _, _)| i == id) {
            v.push(("C24:stdio:response-to-unknown-id".into(), format!("{n} response(s) carry id {id}, which was never sent")));
        }
    }
    v
}

/// C27 over stdio: the document symbols of every open document name the function of the last text sent for it
/// and of no earlier text. (signature, detail)
pub fn oracle_c27(case: &StdioCase, o: &StdioOutcome) -> Vec<(String, String)> {
    let mut v = Vec::new();
    for (i, _open, last, all, view) in &o.doc_views {
        let Some(view) = view else { continue };
        let ops = case.edits.get(*i).cloned().unwrap_or_default();
        let tail: String = ops.chars().rev().take(2).collect::<String>().chars().rev().collect();
        if !view.contains(last.as_str()) {
            let stale = all.iter().rev().find(|m| *m != last && view.contains(m.as_str()));
            let what = if stale.is_some() { "earlier-text" } else if view.contains("Stdio") { "initial-text" } else { "none-of-the-texts" };
            v.push((
                format!("C27:stdio:symbols-not-of-last-notification:observed={what}:last-ops={tail}"),
                format!("document m{i}.lua: notifications after the first didOpen = {ops:?}; last text defines {last}, documentSymbol answers {}", crate::report::clip(view, 300)),
            ));
        }
    }
    v
}
