//! (module owned by one property family; see AGENT_GUIDE.md)
