//! Oracles for the formatter checks (C05, C06, C07).
//!
//! Two independent parts:
//!
//! 1. **Code tokens** — an own, small Lua lexer (not emmylua's) turns a text into the sequence of
//!    code tokens (comments and whitespace removed). `canon()` then applies *only* the rewrites a
//!    given `LuaFormatConfig` allows the formatter to make (established by reading
//!    crates/emmylua_formatter/src/formatter/{expr.rs,render/comments.rs}):
//!      * statement `;` may be dropped unless `output.preserve_statement_semicolon`; empty statements
//!        (per the project's own tree) may always be dropped. A `;` that is *not* optional
//!        (`a = b; (f)()`) is caught by the statement-kind comparison (`compare_stats`).
//!      * table separators `,`/`;` are one class (the formatter always prints `,`), a trailing
//!        separator before `}` may be added or dropped under every policy (style conformance is not
//!        this property);
//!      * a short string may change its quote when `output.quote_style != Preserve`; strings are
//!        then compared by decoded value;
//!      * `f"s"`/`f{..}`/`f[[s]]` vs `f("s")`/`f({..})`/`f([[s]])` according to
//!        `output.single_arg_call_parens`.
//!    Every rewrite is optional per site (keeping the source token is never a violation) and
//!    directional (adding a `;`, removing call parentheses under `Always`, … is not allowed).
//!
//! 2. **Comments** — taken from emmylua's own tree of the input and of the output (the property
//!    speaks about "parse to the same structure", so the project's doc parser is the reference
//!    here): flattened non-trivia token sequence of all comments, prefix tokens normalised for
//!    dash spacing, and the pre-order list of doc node kinds.

use emmylua_formatter::{LuaFormatConfig, QuoteStyle, SingleArgCallParens, TrailingComma};
use emmylua_parser::{LuaKind, LuaLanguageLevel, LuaParser, LuaSyntaxKind, LuaSyntaxNode, LuaSyntaxTree, LuaTokenKind, ParserConfig};

// ------------------------------------------------------------------------------------------
// own lexer
// ------------------------------------------------------------------------------------------

#[derive(Clone, Copy, Debug, PartialEq, Eq)]
pub enum LK {
    Name,
    Keyword,
    Number,
    Str,
    LongStr,
    Op,
    Comment,
    Unknown,
}

#[derive(Clone, Debug, PartialEq, Eq)]
pub struct LTok {
    pub kind: LK,
    pub text: String,
    pub start: usize,
}

pub const KEYWORDS: &[&str] = &[
    "and", "break", "do", "else", "elseif", "end", "false", "for", "function", "goto", "if", "in", "local", "nil", "not", "or",
    "repeat", "return", "then", "true", "until", "while",
];

fn long_bracket_level(b: &[u8], i: usize) -> Option<usize> {
    // b[i] == '['; returns level if "[=*[" starts here
    if b.get(i) != Some(&b'[') {
        return None;
    }
    let mut j = i + 1;
    while b.get(j) == Some(&b'=') {
        j += 1;
    }
    if b.get(j) == Some(&b'[') { Some(j - i - 1) } else { None }
}

fn find_long_close(b: &[u8], mut i: usize, level: usize) -> usize {
    // returns index just after the closing bracket, or len if unterminated
    while i < b.len() {
        if b[i] == b']' {
            let mut j = i + 1;
            while b.get(j) == Some(&b'=') {
                j += 1;
            }
            if j - i - 1 == level && b.get(j) == Some(&b']') {
                return j + 1;
            }
            i = j.max(i + 1);
        } else {
            i += 1;
        }
    }
    b.len()
}

/// Lex Lua source text. Comments are returned as tokens of kind `Comment` (callers filter).
/// The lexer is deliberately version-agnostic: it is only ever used to compare two texts.
pub fn lex(text: &str) -> Vec<LTok> {
    let b = text.as_bytes();
    let mut out = Vec::new();
    let mut i = 0usize;
    // shebang
    if b.starts_with(b"#") {
        // like the reference (and emmylua) a first line starting with '#' is skipped
        let mut j = 0;
        while j < b.len() && b[j] != b'\n' {
            j += 1;
        }
        out.push(LTok { kind: LK::Comment, text: text[..j].to_string(), start: 0 });
        i = j;
    }
    while i < b.len() {
        let c = b[i];
        // whitespace (ASCII; anything else falls through to Unknown/Name below)
        if c == b' ' || c == b'\t' || c == b'\n' || c == b'\r' || c == 0x0b || c == 0x0c {
            i += 1;
            continue;
        }
        let start = i;
        if c == b'-' && b.get(i + 1) == Some(&b'-') {
            // comment
            if let Some(level) = long_bracket_level(b, i + 2) {
                let end = find_long_close(b, i + 2 + level + 2, level);
                out.push(LTok { kind: LK::Comment, text: text[start..end].to_string(), start });
                i = end;
            } else {
                let mut j = i;
                while j < b.len() && b[j] != b'\n' && b[j] != b'\r' {
                    j += 1;
                }
                out.push(LTok { kind: LK::Comment, text: text[start..j].to_string(), start });
                i = j;
            }
            continue;
        }
        if c == b'[' {
            if let Some(level) = long_bracket_level(b, i) {
                let end = find_long_close(b, i + level + 2, level);
                out.push(LTok { kind: LK::LongStr, text: text[start..end].to_string(), start });
                i = end;
                continue;
            }
        }
        if c == b'"' || c == b'\'' {
            let mut j = i + 1;
            while j < b.len() {
                let d = b[j];
                if d == b'\\' {
                    if b.get(j + 1) == Some(&b'z') {
                        j += 2;
                        while j < b.len() && (b[j] as char).is_ascii_whitespace() {
                            j += 1;
                        }
                        continue;
                    }
                    if b.get(j + 1) == Some(&b'\r') && b.get(j + 2) == Some(&b'\n') {
                        j += 3;
                        continue;
                    }
                    j += 2;
                    continue;
                }
                if d == c {
                    j += 1;
                    break;
                }
                if d == b'\n' || d == b'\r' {
                    break; // unterminated
                }
                j += 1;
            }
            let j = j.min(b.len());
            // keep on char boundary
            let mut j2 = j;
            while !text.is_char_boundary(j2) {
                j2 += 1;
            }
            out.push(LTok { kind: LK::Str, text: text[start..j2].to_string(), start });
            i = j2;
            continue;
        }
        if c.is_ascii_digit() || (c == b'.' && b.get(i + 1).map(|d| d.is_ascii_digit()).unwrap_or(false)) {
            let mut j = i;
            let hex = c == b'0' && matches!(b.get(i + 1), Some(b'x') | Some(b'X'));
            if hex {
                j += 2;
            }
            while j < b.len() {
                let d = b[j];
                let is_exp = if hex { d == b'p' || d == b'P' } else { d == b'e' || d == b'E' };
                if is_exp && matches!(b.get(j + 1), Some(b'+') | Some(b'-')) {
                    j += 2;
                } else if d.is_ascii_alphanumeric() || d == b'.' || d == b'_' {
                    j += 1;
                } else {
                    break;
                }
            }
            out.push(LTok { kind: LK::Number, text: text[start..j].to_string(), start });
            i = j;
            continue;
        }
        if c.is_ascii_alphabetic() || c == b'_' || c >= 0x80 {
            let mut j = i;
            while j < b.len() && (b[j].is_ascii_alphanumeric() || b[j] == b'_' || b[j] >= 0x80) {
                j += 1;
            }
            let t = &text[start..j];
            let kind = if KEYWORDS.contains(&t) { LK::Keyword } else { LK::Name };
            out.push(LTok { kind, text: t.to_string(), start });
            i = j;
            continue;
        }
        // operators, longest match first
        const OPS3: &[&str] = &["..."];
        const OPS2: &[&str] = &["..", "==", "~=", "<=", ">=", "<<", ">>", "//", "::"];
        let rest = &text[i..];
        let mut matched = None;
        for o in OPS3.iter().chain(OPS2.iter()) {
            if rest.starts_with(o) {
                matched = Some(o.len());
                break;
            }
        }
        let n = matched.unwrap_or(1);
        let kind = if matched.is_some() || b"+-*/%^#&~|<>=(){}[];:,.".contains(&c) { LK::Op } else { LK::Unknown };
        out.push(LTok { kind, text: text[start..start + n].to_string(), start });
        i += n;
    }
    out
}

// ------------------------------------------------------------------------------------------
// short string decoding
// ------------------------------------------------------------------------------------------

/// Decode a short string literal (with quotes) to bytes; None if malformed.
pub fn decode_short_string(lit: &str) -> Option<Vec<u8>> {
    let b = lit.as_bytes();
    if b.len() < 2 {
        return None;
    }
    let q = b[0];
    if (q != b'"' && q != b'\'') || b[b.len() - 1] != q {
        return None;
    }
    let body = &b[1..b.len() - 1];
    let mut out = Vec::with_capacity(body.len());
    let mut i = 0;
    while i < body.len() {
        let c = body[i];
        if c != b'\\' {
            if c == q {
                return None;
            }
            out.push(c);
            i += 1;
            continue;
        }
        i += 1;
        let e = *body.get(i)?;
        match e {
            b'a' => out.push(7),
            b'b' => out.push(8),
            b'f' => out.push(12),
            b'n' => out.push(b'\n'),
            b'r' => out.push(b'\r'),
            b't' => out.push(b'\t'),
            b'v' => out.push(11),
            b'\\' => out.push(b'\\'),
            b'"' => out.push(b'"'),
            b'\'' => out.push(b'\''),
            b'\n' => {
                out.push(b'\n');
                if body.get(i + 1) == Some(&b'\r') {
                    i += 1;
                }
            }
            b'\r' => {
                out.push(b'\n');
                if body.get(i + 1) == Some(&b'\n') {
                    i += 1;
                }
            }
            b'x' => {
                let h = std::str::from_utf8(body.get(i + 1..i + 3)?).ok()?;
                out.push(u8::from_str_radix(h, 16).ok()?);
                i += 2;
            }
            b'z' => {
                while body.get(i + 1).map(|d| (*d as char).is_ascii_whitespace()).unwrap_or(false) {
                    i += 1;
                }
            }
            b'u' => {
                if body.get(i + 1) != Some(&b'{') {
                    return None;
                }
                let mut j = i + 2;
                let mut v: u64 = 0;
                let mut nd = 0;
                while let Some(d) = body.get(j) {
                    if *d == b'}' {
                        break;
                    }
                    v = v.checked_mul(16)?.checked_add((*d as char).to_digit(16)? as u64)?;
                    nd += 1;
                    j += 1;
                }
                if nd == 0 || body.get(j) != Some(&b'}') || v >= (1 << 31) {
                    return None;
                }
                utf8_encode_ext(v as u32, &mut out);
                i = j;
            }
            d if d.is_ascii_digit() => {
                let mut v: u32 = 0;
                let mut n = 0;
                while n < 3 && body.get(i + n).map(|d| d.is_ascii_digit()).unwrap_or(false) {
                    v = v * 10 + (body[i + n] - b'0') as u32;
                    n += 1;
                }
                if v > 255 {
                    return None;
                }
                out.push(v as u8);
                i += n - 1;
            }
            _ => {
                // unknown escape: keep verbatim (both sides are treated alike)
                out.push(b'\\');
                out.push(e);
            }
        }
        i += 1;
    }
    Some(out)
}

fn utf8_encode_ext(x: u32, out: &mut Vec<u8>) {
    // Lua's luaO_utf8esc: up to 6 bytes
    if x < 0x80 {
        out.push(x as u8);
        return;
    }
    let mut buf = [0u8; 8];
    let mut n = 1usize;
    let mut x = x;
    let mut mfb: u32 = 0x3f;
    loop {
        buf[8 - n] = (0x80 | (x & 0x3f)) as u8;
        n += 1;
        x >>= 6;
        mfb >>= 1;
        if x <= mfb {
            break;
        }
    }
    buf[8 - n] = (((!mfb) << 1) | x) as u8;
    out.extend_from_slice(&buf[8 - n..]);
}

// ------------------------------------------------------------------------------------------
// canonical code-token sequence
// ------------------------------------------------------------------------------------------

#[derive(Clone, Debug, PartialEq, Eq)]
pub enum CTok {
    /// any token compared by text
    T(LK, String),
    /// short string compared by decoded value (only when quote rewriting is enabled)
    S(Vec<u8>),
    /// table separator (`,` or `;` directly inside `{}`)
    Sep,
    /// statement semicolon kept because the config preserves them
    Semi,
}

impl CTok {
    pub fn show(&self) -> String {
        match self {
            CTok::T(_, s) => s.clone(),
            CTok::S(v) => format!("<str:{}>", String::from_utf8_lossy(v)),
            CTok::Sep => "<sep>".into(),
            CTok::Semi => ";".into(),
        }
    }
    /// structural class used in signatures (never the text of names / literals)
    pub fn class(&self) -> String {
        match self {
            CTok::T(LK::Name, _) => "name".into(),
            CTok::T(LK::Number, _) => "number".into(),
            CTok::T(LK::Str, _) | CTok::S(_) => "string".into(),
            CTok::T(LK::LongStr, _) => "long-string".into(),
            CTok::T(LK::Keyword, s) => format!("kw:{s}"),
            CTok::T(LK::Op, s) => format!("op:{s}"),
            CTok::T(LK::Unknown, _) => "unknown-char".into(),
            CTok::T(LK::Comment, _) => "comment".into(),
            CTok::Sep => "table-sep".into(),
            CTok::Semi => "semicolon".into(),
        }
    }
}

/// Sites where a directional, optional rewrite may have happened (in source order).
#[derive(Clone, Debug, Default, PartialEq, Eq)]
pub struct Sites {
    /// per optional statement semicolon position class: number of optional `;` present
    pub opt_semis: usize,
    /// per table constructor (in order of its `}`), whether a trailing separator is present
    pub trailing: Vec<bool>,
    /// per single-string/table-argument call (in order), whether parentheses are present
    pub call_parens: Vec<bool>,
    /// per short string (in order): the quote character
    pub quotes: Vec<u8>,
}

pub struct Canon {
    pub toks: Vec<CTok>,
    /// source byte offset of every canonical token
    pub offs: Vec<usize>,
    pub sites: Sites,
    /// number of code tokens before canonicalisation
    pub raw_len: usize,
}

#[derive(Clone, Copy, PartialEq, Eq, Debug)]
enum Open {
    Brace,
    Paren,
    Bracket,
    Block,
}

fn ends_prefix_exp(t: &LTok) -> bool {
    match t.kind {
        LK::Name | LK::Str | LK::LongStr => true,
        LK::Op => t.text == ")" || t.text == "]" || t.text == "}",
        _ => false,
    }
}

/// Canonical token sequence of `text` under `cfg` (see module doc).
pub fn canon(text: &str, cfg: &LuaFormatConfig, free_semis: &std::collections::BTreeSet<usize>) -> Canon {
    let toks: Vec<LTok> = lex(text).into_iter().filter(|t| t.kind != LK::Comment).collect();
    let n = toks.len();
    let quote_free = cfg.output.quote_style != QuoteStyle::Preserve;
    let parens_free = cfg.output.single_arg_call_parens != SingleArgCallParens::Preserve;
    let keep_semis = cfg.output.preserve_statement_semicolon;

    // matching closers for every opener (brackets only)
    let mut match_of = vec![usize::MAX; n];
    {
        let mut st: Vec<usize> = Vec::new();
        for (i, t) in toks.iter().enumerate() {
            if t.kind != LK::Op {
                continue;
            }
            match t.text.as_str() {
                "(" | "{" | "[" => st.push(i),
                ")" | "}" | "]" => {
                    if let Some(o) = st.pop() {
                        match_of[o] = i;
                        match_of[i] = o;
                    }
                }
                _ => {}
            }
        }
    }

    // single-argument call parentheses: "(" STRING ")" or "(" "{" … "}" ")" after a prefix expression
    let mut drop = vec![false; n];
    let mut sites = Sites::default();
    let mut call_site_at: Vec<Option<bool>> = vec![None; n]; // index of the argument's first token -> parens present
    for i in 0..n {
        let t = &toks[i];
        if i == 0 || !ends_prefix_exp(&toks[i - 1]) {
            continue;
        }
        // `function name (…)` parameter lists never contain a string / table, so no confusion there
        if t.kind == LK::Op && t.text == "(" && match_of[i] != usize::MAX {
            let close = match_of[i];
            let inner_first = i + 1;
            if inner_first < close {
                let a = &toks[inner_first];
                let single = if a.kind == LK::Str || a.kind == LK::LongStr {
                    close == inner_first + 1
                } else if a.kind == LK::Op && a.text == "{" && match_of[inner_first] != usize::MAX {
                    match_of[inner_first] + 1 == close
                } else {
                    false
                };
                if single {
                    call_site_at[inner_first] = Some(true);
                    if parens_free {
                        drop[i] = true;
                        drop[close] = true;
                    }
                }
            }
        } else if t.kind == LK::Str || t.kind == LK::LongStr || (t.kind == LK::Op && t.text == "{") {
            // argument without parentheses: in valid Lua a string / table constructor directly after the end of
            // a prefix expression is always a call argument
            call_site_at[i] = Some(false);
        }
    }

    let mut out = Vec::with_capacity(n);
    let mut offs: Vec<usize> = Vec::with_capacity(n);
    let mut stack: Vec<Open> = Vec::new();
    for i in 0..n {
        let t = &toks[i];
        while offs.len() < out.len() {
            // tokens pushed in the previous iteration
            offs.push(toks[i - 1].start);
        }
        if let Some(p) = call_site_at[i] {
            sites.call_parens.push(p);
        }
        if drop[i] {
            // dropped parens of a single-argument call still take part in bracket tracking
            continue;
        }
        match t.kind {
            LK::Keyword => {
                match t.text.as_str() {
                    "function" | "if" | "repeat" => stack.push(Open::Block),
                    "do" => stack.push(Open::Block),
                    "end" | "until" => {
                        // pop to the innermost Block (tolerate unbalanced input)
                        while let Some(o) = stack.pop() {
                            if o == Open::Block {
                                break;
                            }
                        }
                    }
                    _ => {}
                }
                out.push(CTok::T(LK::Keyword, t.text.clone()));
            }
            LK::Op => match t.text.as_str() {
                "{" => {
                    stack.push(Open::Brace);
                    out.push(CTok::T(LK::Op, "{".into()));
                }
                "(" => {
                    stack.push(Open::Paren);
                    out.push(CTok::T(LK::Op, "(".into()));
                }
                "[" => {
                    stack.push(Open::Bracket);
                    out.push(CTok::T(LK::Op, "[".into()));
                }
                "}" | ")" | "]" => {
                    let want = match t.text.as_str() {
                        "}" => Open::Brace,
                        ")" => Open::Paren,
                        _ => Open::Bracket,
                    };
                    if stack.last() == Some(&want) {
                        stack.pop();
                    }
                    out.push(CTok::T(LK::Op, t.text.clone()));
                }
                "," | ";" if stack.last() == Some(&Open::Brace) => {
                    // table separator; trailing one is free
                    let next_is_close = toks.get(i + 1).map(|x| x.kind == LK::Op && x.text == "}").unwrap_or(false);
                    if next_is_close {
                        // recorded at the `}` below via lookbehind
                    } else {
                        out.push(CTok::Sep);
                    }
                }
                ";" => {
                    // statement semicolon: an empty statement (per the project's own tree) is always free
                    if free_semis.contains(&t.start) {
                        // nothing
                    } else if keep_semis {
                        out.push(CTok::Semi);
                    } else {
                        sites.opt_semis += 1;
                    }
                }
                _ => out.push(CTok::T(LK::Op, t.text.clone())),
            },
            LK::Str => {
                sites.quotes.push(t.text.as_bytes()[0]);
                if quote_free {
                    match decode_short_string(&t.text) {
                        Some(v) => out.push(CTok::S(v)),
                        None => out.push(CTok::T(LK::Str, t.text.clone())),
                    }
                } else {
                    out.push(CTok::T(LK::Str, t.text.clone()));
                }
            }
            k => out.push(CTok::T(k, t.text.clone())),
        }
        // trailing separator bookkeeping: at a table's `}`
        if t.kind == LK::Op && t.text == "}" && match_of[i] != usize::MAX {
            let has = i > 0 && toks[i - 1].kind == LK::Op && (toks[i - 1].text == "," || toks[i - 1].text == ";") && match_of[i] + 1 != i;
            sites.trailing.push(has);
        }
    }
    while offs.len() < out.len() {
        offs.push(toks[n - 1].start);
    }
    Canon { toks: out, offs, sites, raw_len: n }
}

#[derive(Debug, Clone)]
pub struct Mismatch {
    /// clause name, e.g. "token-seq", "semicolon-added", "comment-seq", "doc-structure"
    pub clause: String,
    /// structural discriminator for the signature
    pub what: String,
    /// human-readable detail
    pub detail: String,
}

#[derive(Clone, Copy, Debug, PartialEq, Eq)]
pub enum Diff {
    Lost,
    Added,
    Changed,
}

/// Classify the difference of two sequences at their first differing index `k`: `Lost(d)` if the
/// output continues like the input after skipping `d` input tokens, `Added(d)` for the converse.
pub fn classify_diff<T>(a: &[T], b: &[T], k: usize, eq: impl Fn(&T, &T) -> bool) -> (Diff, usize) {
    if k >= b.len() {
        return (Diff::Lost, a.len() - k);
    }
    if k >= a.len() {
        return (Diff::Added, b.len() - k);
    }
    let matches2 = |x: &[T], i: usize, y: &[T], j: usize| -> bool {
        // two tokens in a row agree (or one, at the very end)
        match (x.get(i), y.get(j)) {
            (Some(p), Some(q)) if eq(p, q) => match (x.get(i + 1), y.get(j + 1)) {
                (Some(p2), Some(q2)) => eq(p2, q2),
                (None, None) => true,
                _ => false,
            },
            (None, None) => true,
            _ => false,
        }
    };
    for d in 1..=12 {
        if matches2(a, k + d, b, k) {
            return (Diff::Lost, d);
        }
        if matches2(b, k + d, a, k) {
            return (Diff::Added, d);
        }
    }
    (Diff::Changed, 1)
}

fn ctx_show(v: &[CTok], i: usize) -> String {
    let lo = i.saturating_sub(4);
    let hi = (i + 4).min(v.len());
    v[lo..hi].iter().map(|t| t.show()).collect::<Vec<_>>().join(" ")
}

/// Compare code tokens of `src` and `out` under `cfg`.
pub fn compare_code(src: &str, src_root: &LuaSyntaxNode, out: &str, out_root: &LuaSyntaxNode, cfg: &LuaFormatConfig) -> Result<usize, Mismatch> {
    let a = canon(src, cfg, &empty_stat_semis(src_root));
    let b = canon(out, cfg, &empty_stat_semis(out_root));
    // first difference
    let n = a.toks.len().min(b.toks.len());
    let mut k = 0;
    while k < n && a.toks[k] == b.toks[k] {
        k += 1;
    }
    if k < n || a.toks.len() != b.toks.len() {
        let (dir, d) = classify_diff(&a.toks, &b.toks, k, |x, y| x == y);
        // the construct: innermost interesting node of the *input* tree around the first differing input token
        let at_off = a.offs.get(k).copied().unwrap_or(src.len());
        let at = enclosing_kind(src_root, at_off);
        let _ = d;
        let semis = |v: &Vec<CTok>| v.iter().filter(|t| **t == CTok::Semi).count();
        let what = if semis(&b.toks) > semis(&a.toks) {
            // only possible with preserve_statement_semicolon: a `;` that was not in the input
            "added=semicolon".to_string()
        } else {
            match dir {
            // lost or replaced: name the input token that has no counterpart
            Diff::Lost | Diff::Changed => format!("src={}:at={at}", a.toks.get(k).map(|t| t.class()).unwrap_or_else(|| "eof".into())),
            Diff::Added => format!("added={}:at={at}", b.toks.get(k).map(|t| t.class()).unwrap_or_default()),
            }
        };
        return Err(Mismatch {
            clause: "token-seq".into(),
            what,
            detail: format!("first difference at canonical token {k}: input «{}» vs output «{}»", ctx_show(&a.toks, k), ctx_show(&b.toks, k)),
        });
    }
    // directional checks
    if b.sites.opt_semis > a.sites.opt_semis {
        return Err(Mismatch { clause: "token-seq".into(), what: "added=semicolon".into(), detail: format!("{} optional statement semicolons in the input, {} in the output", a.sites.opt_semis, b.sites.opt_semis) });
    }
    // trailing table separators are free in both directions under every policy: whether the output honours
    // `trailing_table_comma()` is a style-conformance question, not one of changed or lost code.
    if a.sites.call_parens.len() == b.sites.call_parens.len() {
        for (x, y) in a.sites.call_parens.iter().zip(b.sites.call_parens.iter()) {
            if x == y {
                continue;
            }
            let bad = match cfg.output.single_arg_call_parens {
                SingleArgCallParens::Preserve => true,
                SingleArgCallParens::Always => *x && !*y,
                SingleArgCallParens::Omit => !*x && *y,
            };
            if bad {
                return Err(Mismatch {
                    clause: "token-seq".into(),
                    what: format!("call-parens:{}:policy={:?}", if *y { "added" } else { "removed" }, cfg.output.single_arg_call_parens),
                    detail: "single-argument call parentheses changed against the configured policy".into(),
                });
            }
        }
    }
    if a.sites.quotes.len() == b.sites.quotes.len() {
        let pref = match cfg.output.quote_style {
            QuoteStyle::Preserve => 0u8,
            QuoteStyle::Double => b'"',
            QuoteStyle::Single => b'\'',
        };
        for (x, y) in a.sites.quotes.iter().zip(b.sites.quotes.iter()) {
            if x != y && *y != pref {
                return Err(Mismatch {
                    clause: "token-seq".into(),
                    what: format!("quote-changed-against-style:{:?}", cfg.output.quote_style),
                    detail: format!("a string quoted with {} became quoted with {}", *x as char, *y as char),
                });
            }
        }
    }
    Ok(a.raw_len)
}

/// Offsets of `;` tokens that form an empty statement in the project's tree.
pub fn empty_stat_semis(root: &LuaSyntaxNode) -> std::collections::BTreeSet<usize> {
    let mut s = std::collections::BTreeSet::new();
    for n in root.descendants() {
        if n.kind() == LuaKind::Syntax(LuaSyntaxKind::EmptyStat) {
            for t in n.children_with_tokens().filter_map(|e| e.into_token()) {
                if t.kind().to_token() == LuaTokenKind::TkSemicolon {
                    s.insert(usize::from(t.text_range().start()));
                }
            }
        }
    }
    s
}

/// Pre-order list of statement kinds (empty statements excluded). Dropping a `;` that is not
/// optional (`a = b; (f)()`) merges two statements and shows up here.
pub fn stat_kinds(root: &LuaSyntaxNode) -> Vec<LuaSyntaxKind> {
    root.descendants()
        .map(|n| n.kind().to_syntax())
        .filter(|k| *k != LuaSyntaxKind::EmptyStat && format!("{k:?}").ends_with("Stat"))
        .collect()
}

pub fn compare_stats(src_root: &LuaSyntaxNode, out_root: &LuaSyntaxNode) -> Result<usize, Mismatch> {
    let a = stat_kinds(src_root);
    let b = stat_kinds(out_root);
    if a == b {
        return Ok(a.len());
    }
    let n = a.len().min(b.len());
    let mut k = 0;
    while k < n && a[k] == b[k] {
        k += 1;
    }
    let x = a.get(k).map(|k| format!("{k:?}")).unwrap_or("none".into());
    let y = b.get(k).map(|k| format!("{k:?}")).unwrap_or("none".into());
    let (dir, _) = classify_diff(&a, &b, k, |p, q| p == q);
    let what = match dir {
        Diff::Lost => format!("statement-merged-or-lost:{x}"),
        Diff::Added => format!("statement-split-or-added:{y}"),
        Diff::Changed => format!("statement-kind-changed:{x}"),
    };
    Err(Mismatch {
        clause: "stat-structure".into(),
        what,
        detail: format!("same code tokens but statement {k} is {x} in the input and {y} in the output ({} vs {} statements)", a.len(), b.len()),
    })
}

// ------------------------------------------------------------------------------------------
// comments (emmylua's doc structure of input vs output)
// ------------------------------------------------------------------------------------------

pub fn parse(text: &str, level: LuaLanguageLevel) -> LuaSyntaxTree {
    LuaParser::parse(text, ParserConfig::with_level(level))
}

#[derive(Clone, Debug, PartialEq, Eq)]
pub struct DocTok {
    pub kind: LuaTokenKind,
    pub text: String,
    /// kind of the closest doc-tag ancestor (or Comment)
    pub owner: LuaSyntaxKind,
    /// kind of the direct parent node
    pub parent: LuaSyntaxKind,
    /// kind of the node the comment is attached to (parent of the Comment node)
    pub host: LuaSyntaxKind,
    /// index of the token within its comment
    pub idx: usize,
    /// running number of the comment line (unit) the token belongs to
    pub unit: usize,
    /// the line is a doc line (`---…`): its free text is compared modulo whitespace, like the
    /// annotation tokens (column alignment and `---|x` -> `--- | x` are layout, not content)
    pub doc_line: bool,
}

pub struct CommentView {
    pub toks: Vec<DocTok>,
    /// pre-order node kinds below Comment nodes (Comment nodes themselves excluded)
    pub skeleton: Vec<(LuaSyntaxKind, usize)>,
    pub comments: usize,
}

fn is_prefix_kind(k: LuaTokenKind) -> bool {
    matches!(
        k,
        LuaTokenKind::TkNormalStart
            | LuaTokenKind::TkDocStart
            | LuaTokenKind::TkDocContinue
            | LuaTokenKind::TkDocContinueOr
            | LuaTokenKind::TkLongCommentStart
            | LuaTokenKind::TkDocLongStart
            | LuaTokenKind::TKDocTriviaStart
    )
}

fn is_tag_node(k: LuaSyntaxKind) -> bool {
    format!("{k:?}").starts_with("DocTag")
}

/// Flatten all comments of a tree.
pub fn comment_view(root: &LuaSyntaxNode) -> CommentView {
    let mut toks = Vec::new();
    let mut skeleton = Vec::new();
    let mut comments = 0;
    let mut unit = 0usize;
    for node in root.descendants() {
        if node.kind() != LuaKind::Syntax(LuaSyntaxKind::Comment) {
            continue;
        }
        unit += 1;
        if node.ancestors().skip(1).any(|a| a.kind() == LuaKind::Syntax(LuaSyntaxKind::Comment)) {
            continue;
        }
        comments += 1;
        let host = node.parent().map(|p| p.kind().to_syntax()).unwrap_or(LuaSyntaxKind::Chunk);
        let base_depth = node.ancestors().count();
        let mut idx = 0usize;
        let mut doc_line = false;
        for el in node.descendants_with_tokens() {
            match el {
                rowan::NodeOrToken::Node(n) => {
                    if n == node {
                        continue;
                    }
                    // structure = the annotation trees: nodes at or below a doc tag, free text excluded
                    let k = n.kind().to_syntax();
                    let under_tag = n.ancestors().take_while(|a| *a != node).any(|a| is_tag_node(a.kind().to_syntax()));
                    if k != LuaSyntaxKind::DocDescription && under_tag {
                        let d = n.ancestors().count() - base_depth;
                        skeleton.push((k, d));
                    }
                }
                rowan::NodeOrToken::Token(t) => {
                    let k = t.kind().to_token();
                    if k == LuaTokenKind::TkEndOfLine {
                        unit += 1;
                        continue;
                    }
                    if k == LuaTokenKind::TkWhitespace {
                        continue;
                    }
                    let parent = t.parent().map(|p| p.kind().to_syntax()).unwrap_or(LuaSyntaxKind::None);
                    let owner = t
                        .parent_ancestors()
                        .map(|a| a.kind().to_syntax())
                        .find(|k| is_tag_node(*k) || *k == LuaSyntaxKind::Comment)
                        .unwrap_or(LuaSyntaxKind::Comment);
                    if is_prefix_kind(k) {
                        doc_line = matches!(k, LuaTokenKind::TkDocStart | LuaTokenKind::TkDocContinue | LuaTokenKind::TkDocContinueOr)
                            || (k == LuaTokenKind::TkNormalStart && t.text().bytes().take_while(|b| *b == b'-').count() == 3);
                    }
                    let text = if is_prefix_kind(k) {
                        t.text().chars().filter(|c| !c.is_whitespace()).collect::<String>()
                    } else {
                        t.text().trim().to_string()
                    };
                    if text.is_empty() {
                        continue;
                    }
                    toks.push(DocTok { kind: k, text, owner, parent, host, idx, unit, doc_line });
                    idx += 1;
                }
            }
        }
    }
    CommentView { toks, skeleton, comments }
}

fn kind_name(k: LuaSyntaxKind) -> String {
    format!("{k:?}")
}

fn doc_tok_eq(x: &DocTok, y: &DocTok) -> bool {
    if x.kind != y.kind {
        return false;
    }
    if x.text == y.text {
        return true;
    }
    if x.doc_line && y.doc_line && matches!(x.kind, LuaTokenKind::TkDocDetail | LuaTokenKind::TkDocTrivia) {
        let strip = |s: &str| s.chars().filter(|c| !c.is_whitespace()).collect::<String>();
        if strip(&x.text) == strip(&y.text) {
            return true;
        }
    }
    // string literals inside annotations: compared by value (a changed quote style is not a changed meaning)
    if x.kind == LuaTokenKind::TkString {
        if let (Some(a), Some(b)) = (decode_short_string(&x.text), decode_short_string(&y.text)) {
            return a == b;
        }
    }
    false
}

fn first_char_class(s: &str) -> &'static str {
    match s.chars().next() {
        None => "empty",
        Some('|') => "pipe",
        Some('#') => "hash",
        Some('@') => "at",
        Some('`') => "backtick",
        Some('-') => "dash",
        Some(c) if c.is_alphanumeric() => "word",
        Some(c) if c.is_ascii_punctuation() => "punct",
        Some(_) => "other",
    }
}

/// Compare the comments of the input tree with those of the output tree.
pub fn compare_comments(src_root: &LuaSyntaxNode, out_root: &LuaSyntaxNode, check_skeleton: bool, malformed: bool) -> Result<usize, Mismatch> {
    let a = comment_view(src_root);
    let b = comment_view(out_root);
    let n = a.toks.len().min(b.toks.len());
    let mut k = 0;
    while k < n && doc_tok_eq(&a.toks[k], &b.toks[k]) {
        k += 1;
    }
    if k < n || a.toks.len() != b.toks.len() {
        // Not the same sequence. Comments may legitimately move relative to each other (a comment after a
        // comma joins the one at the end of the line, …): compare the multisets of comment lines.
        let units = |v: &Vec<DocTok>| -> Vec<Vec<DocTok>> {
            let mut out: Vec<Vec<DocTok>> = Vec::new();
            let mut last = usize::MAX;
            for t in v {
                if t.unit != last {
                    out.push(Vec::new());
                    last = t.unit;
                }
                out.last_mut().unwrap().push(t.clone());
            }
            out
        };
        let key = |u: &Vec<DocTok>| -> String {
            let mut s = String::new();
            for t in u {
                let txt = if t.kind == LuaTokenKind::TkString {
                    decode_short_string(&t.text).map(|v| String::from_utf8_lossy(&v).to_string()).unwrap_or(t.text.clone())
                } else if t.doc_line && matches!(t.kind, LuaTokenKind::TkDocDetail | LuaTokenKind::TkDocTrivia) {
                    t.text.chars().filter(|c| !c.is_whitespace()).collect()
                } else {
                    t.text.clone()
                };
                s.push_str(&format!("{:?}\u{1}{}\u{2}", t.kind, txt));
            }
            s
        };
        let ua = units(&a.toks);
        let ub = units(&b.toks);
        let mut count: std::collections::BTreeMap<String, i64> = std::collections::BTreeMap::new();
        for u in &ua {
            *count.entry(key(u)).or_insert(0) += 1;
        }
        let src_keys: std::collections::BTreeSet<String> = count.keys().cloned().collect();
        for u in &ub {
            *count.entry(key(u)).or_insert(0) -= 1;
        }
        let lost: Vec<&Vec<DocTok>> = {
            let mut c = count.clone();
            ua.iter().filter(|u| {
                let e = c.get_mut(&key(u)).unwrap();
                if *e > 0 { *e -= 1; true } else { false }
            }).collect()
        };
        let extra: Vec<&Vec<DocTok>> = {
            let mut c = count.clone();
            ub.iter().filter(|u| {
                let e = c.get_mut(&key(u)).unwrap();
                if *e < 0 { *e += 1; true } else { false }
            }).collect()
        };
        if lost.is_empty() && extra.is_empty() {
            // same comment lines, different order: admissible
            return Ok(a.toks.len());
        }
        let show_u = |u: &Vec<DocTok>| -> String { u.iter().map(|t| t.text.clone()).collect::<Vec<_>>().join(" ") };
        // identical comment lines cannot be told apart by the multiset: prefer the lost line that contains the
        // first difference of the plain sequence comparison
        let lost_first: Option<&Vec<DocTok>> = {
            let ku = a.toks.get(k).map(|t| t.unit);
            let at_k = ua.iter().find(|u| Some(u[0].unit) == ku);
            match at_k {
                Some(u) if lost.iter().any(|l| key(l) == key(u)) => Some(u),
                _ => lost.first().copied(),
            }
        };
        if let Some(l) = lost_first {
            // partner: the extra unit with the longest common token prefix
            let mut best: Option<(&Vec<DocTok>, usize)> = None;
            for e in &extra {
                let mut c = 0;
                while c < l.len().min(e.len()) && doc_tok_eq(&l[c], &e[c]) {
                    c += 1;
                }
                if c >= 1 && best.map(|b| c > b.1).unwrap_or(true) {
                    best = Some((e, c));
                }
            }
            if let Some((e, c)) = best {
                let (dir, _d) = classify_diff(l, e, c, doc_tok_eq);
                let tag = l.iter().find(|t| is_tag_node(t.owner)).map(|t| kind_name(t.owner)).unwrap_or_else(|| "Comment".to_string());
                // recognisable shapes first (one root cause each, whatever the neighbouring tokens are)
                let twice = e.len() == 2 * l.len() && (0..l.len()).all(|i| doc_tok_eq(&l[i], &e[i]) && doc_tok_eq(&l[i], &e[i + l.len()]));
                let semi_appended = l.len() == e.len() && c + 1 == l.len() && e[c].text == format!("{};", l[c].text) || (e.len() == l.len() + 1 && c == l.len() && e[c].text == ";");
                let key_dup = tag == "DocTagField" && e.get(c).map(|y| matches!(y.kind, LuaTokenKind::TkLeftBracket | LuaTokenKind::TkTagVisibility | LuaTokenKind::TkDocVisibility) && e[..c].iter().any(|p| p.kind == y.kind)).unwrap_or(false);
                let what = if twice {
                    format!("line-duplicated-inline:tag={tag}")
                } else if semi_appended {
                    "semicolon-appended-to-comment".to_string()
                } else if key_dup {
                    "field-key-duplicated".to_string()
                } else {
                    match dir {
                        Diff::Added => {
                            let y = &e[c];
                            let anchor = l.get(c).unwrap_or(&l[l.len() - 1]);
                            format!("added={:?}:tag={}:in={}", y.kind, tag, kind_name(anchor.parent))
                        }
                        Diff::Lost | Diff::Changed => {
                            let x = &l[c];
                            let same_kind_text = e.get(c).map(|y| y.kind == x.kind).unwrap_or(false) && dir == Diff::Changed;
                            if same_kind_text {
                                let y = &e[c];
                                let strip = |s: &str| s.chars().filter(|c| !c.is_whitespace()).collect::<String>();
                                let how = if strip(&x.text) == strip(&y.text) { "inner-whitespace" } else { "content" };
                                format!("text-changed={:?}:{}:first={}:tag={}:in={}", x.kind, how, first_char_class(&x.text), tag, kind_name(x.parent))
                            } else {
                                format!("src={:?}:tag={}:in={}", x.kind, tag, kind_name(x.parent))
                            }
                        }
                    }
                };
                let what = if malformed { format!("malformed-annotation:{}", what.split(':').next().unwrap_or("changed").split('=').next().unwrap_or("changed")) } else { what };
                return Err(Mismatch { clause: "comment-tokens".into(), what, detail: format!("comment line changed: input «{}» vs output «{}»", show_u(l), show_u(e)) });
            }
            let x = &l[0];
            return Err(Mismatch {
                clause: "comment-lost".into(),
                what: format!("host={}", kind_name(x.host)),
                detail: format!("comment line «{}» of the input (attached to a {}) does not occur in the output", show_u(l), kind_name(x.host)),
            });
        }
        let e = extra[0];
        let dup = src_keys.contains(&key(e));
        return Err(Mismatch {
            clause: if dup { "comment-duplicated".into() } else { "comment-added".into() },
            what: format!("host={}", kind_name(e[0].host)),
            detail: format!("comment line «{}» occurs more often in the output than in the input", show_u(e)),
        });
    }
    // same tokens: structure
    if !check_skeleton {
        return Ok(a.toks.len());
    }
    let sa: Vec<LuaSyntaxKind> = a.skeleton.iter().map(|x| x.0).collect();
    let sb: Vec<LuaSyntaxKind> = b.skeleton.iter().map(|x| x.0).collect();
    if sa != sb {
        let n = sa.len().min(sb.len());
        let mut k = 0;
        while k < n && sa[k] == sb[k] {
            k += 1;
        }
        let x = sa.get(k).map(|k| kind_name(*k)).unwrap_or("none".into());
        let y = sb.get(k).map(|k| kind_name(*k)).unwrap_or("none".into());
        // enclosing tag of the first differing node on the input side
        let mut tag = "Comment".to_string();
        for j in (0..k.min(sa.len())).rev() {
            if is_tag_node(sa[j]) {
                tag = kind_name(sa[j]);
                break;
            }
        }
        return Err(Mismatch {
            clause: "doc-structure".into(),
            what: format!("after={tag}:{x}->{y}"),
            detail: format!("comment tokens are equal but the doc trees differ at node {k}: input {x}, output {y}"),
        });
    }
    Ok(a.toks.len())
}

/// Smallest interesting syntax kind enclosing byte `offset` (for C06 signatures).
pub fn enclosing_kind(root: &LuaSyntaxNode, offset: usize) -> String {
    let off = rowan::TextSize::new(offset.min(usize::from(root.text_range().end())) as u32);
    let tok = match root.token_at_offset(off) {
        rowan::TokenAtOffset::None => return "eof".into(),
        rowan::TokenAtOffset::Single(t) => t,
        rowan::TokenAtOffset::Between(_, r) => r,
    };
    let mut tag: Option<String> = None;
    let mut in_comment = false;
    for a in tok.parent_ancestors() {
        let k = a.kind().to_syntax();
        if is_tag_node(k) && tag.is_none() {
            tag = Some(kind_name(k));
        }
        if k == LuaSyntaxKind::Comment {
            in_comment = true;
            break;
        }
    }
    if in_comment {
        return format!("Comment/{}", tag.unwrap_or_else(|| "text".into()));
    }
    // code: innermost node kind that is not a trivial leaf wrapper
    for a in tok.parent_ancestors() {
        let k = a.kind().to_syntax();
        if matches!(k, LuaSyntaxKind::NameExpr | LuaSyntaxKind::LiteralExpr | LuaSyntaxKind::LocalName | LuaSyntaxKind::ParamName | LuaSyntaxKind::Block | LuaSyntaxKind::Chunk) {
            continue;
        }
        return kind_name(k);
    }
    "Chunk".into()
}

// ------------------------------------------------------------------------------------------
// formatter configurations
// ------------------------------------------------------------------------------------------

use crate::corpus::Corpus;
use crate::gens::{soup, valid};
use crate::rng::Rng;
use emmylua_formatter::config::SimpleLambdaSingleLine;
use emmylua_formatter::{EndOfLine, ExpandStrategy, IndentKind, LuaSyntaxLevel, TrailingTableSeparator};
use serde_json::{Value, json};

pub const LEVEL_NAMES: [(&str, LuaLanguageLevel, LuaSyntaxLevel); 8] = [
    ("Lua51", LuaLanguageLevel::Lua51, LuaSyntaxLevel::Lua51),
    ("Lua52", LuaLanguageLevel::Lua52, LuaSyntaxLevel::Lua52),
    ("Lua53", LuaLanguageLevel::Lua53, LuaSyntaxLevel::Lua53),
    ("Lua54", LuaLanguageLevel::Lua54, LuaSyntaxLevel::Lua54),
    ("Lua55", LuaLanguageLevel::Lua55, LuaSyntaxLevel::Lua55),
    ("LuaJIT", LuaLanguageLevel::LuaJIT2, LuaSyntaxLevel::LuaJIT),
    ("LuaJITExt", LuaLanguageLevel::LuaJIT, LuaSyntaxLevel::LuaJITExt),
    ("LuaJIT3", LuaLanguageLevel::LuaJIT3, LuaSyntaxLevel::LuaJIT3),
];

pub fn level_by_name(name: &str) -> (LuaLanguageLevel, LuaSyntaxLevel) {
    LEVEL_NAMES.iter().find(|l| l.0 == name).map(|l| (l.1, l.2)).unwrap_or((LuaLanguageLevel::Lua55, LuaSyntaxLevel::Lua55))
}

fn expand(rng: &mut Rng) -> ExpandStrategy {
    match rng.below(3) {
        0 => ExpandStrategy::Never,
        1 => ExpandStrategy::Always,
        _ => ExpandStrategy::Auto,
    }
}

/// A formatter configuration over every `LuaFormatConfig` field. About a third of the cases use
/// the defaults, a third the defaults with a few switches changed, a third everything random.
pub fn gen_config(rng: &mut Rng, level_name: &str) -> LuaFormatConfig {
    let mut c = LuaFormatConfig::default();
    c.syntax.level = level_by_name(level_name).1;
    let mode = rng.below(3);
    if mode == 0 {
        return c;
    }
    // mode 1: each group is touched with probability 1/5; mode 2: always
    let touch = |rng: &mut Rng| mode == 2 || rng.chance(1, 5);
    if touch(rng) {
        c.indent.kind = if rng.bool() { IndentKind::Tab } else { IndentKind::Space };
        c.indent.width = rng.range(1, 8);
    }
    if touch(rng) {
        c.layout.max_line_width = match rng.below(10) {
            0 => rng.range(1, 19),
            1..=5 => rng.range(20, 80),
            6..=8 => rng.range(81, 200),
            _ => 1000,
        };
    }
    if touch(rng) {
        c.layout.max_blank_lines = rng.below(4);
    }
    if touch(rng) {
        c.layout.table_expand = expand(rng);
        c.layout.call_args_expand = expand(rng);
        c.layout.func_params_expand = expand(rng);
    }
    if touch(rng) {
        c.layout.prefer_call_args_layout_from_source = rng.bool();
        c.layout.prefer_table_layout_from_source = rng.bool();
        c.layout.prefer_chain_break_on_statement_tail = rng.bool();
        c.layout.prefer_binary_chain_operand_per_line = rng.bool();
    }
    if touch(rng) {
        c.output.insert_final_newline = rng.bool();
        c.output.end_of_line = if rng.chance(1, 3) { EndOfLine::CRLF } else { EndOfLine::LF };
    }
    if touch(rng) {
        c.output.preserve_statement_semicolon = rng.bool();
    }
    if touch(rng) {
        c.output.trailing_comma = match rng.below(3) {
            0 => TrailingComma::Never,
            1 => TrailingComma::Multiline,
            _ => TrailingComma::Always,
        };
        c.output.trailing_table_separator = match rng.below(4) {
            0 => TrailingTableSeparator::Inherit,
            1 => TrailingTableSeparator::Never,
            2 => TrailingTableSeparator::Multiline,
            _ => TrailingTableSeparator::Always,
        };
    }
    if touch(rng) {
        c.output.quote_style = match rng.below(3) {
            0 => QuoteStyle::Preserve,
            1 => QuoteStyle::Double,
            _ => QuoteStyle::Single,
        };
    }
    if touch(rng) {
        c.output.single_arg_call_parens = match rng.below(3) {
            0 => SingleArgCallParens::Preserve,
            1 => SingleArgCallParens::Always,
            _ => SingleArgCallParens::Omit,
        };
    }
    if touch(rng) {
        c.output.simple_lambda_single_line = match rng.below(3) {
            0 => SimpleLambdaSingleLine::Preserve,
            1 => SimpleLambdaSingleLine::Always,
            _ => SimpleLambdaSingleLine::Never,
        };
    }
    if touch(rng) {
        c.spacing.space_before_call_paren = rng.bool();
        c.spacing.space_before_func_paren = rng.bool();
        c.spacing.space_before_lambda_func_paren = rng.bool();
        c.spacing.space_inside_braces = rng.bool();
        c.spacing.space_inside_parens = rng.bool();
        c.spacing.space_inside_brackets = rng.bool();
    }
    if touch(rng) {
        c.spacing.space_around_math_operator = rng.bool();
        c.spacing.space_around_concat_operator = rng.bool();
        c.spacing.space_around_assign_operator = rng.bool();
    }
    if touch(rng) {
        c.comments.align_line_comments = rng.bool();
        c.comments.align_in_statements = rng.bool();
        c.comments.align_in_table_fields = rng.bool();
        c.comments.align_in_call_args = rng.bool();
        c.comments.align_in_params = rng.bool();
        c.comments.align_across_standalone_comments = rng.bool();
        c.comments.align_same_kind_only = rng.bool();
    }
    if touch(rng) {
        c.comments.space_after_comment_dash = rng.bool();
        c.comments.line_comment_min_spaces_before = rng.below(5);
        c.comments.line_comment_min_column = if rng.bool() { 0 } else { rng.range(10, 70) };
    }
    if touch(rng) {
        c.emmy_doc.align_tag_columns = rng.bool();
        c.emmy_doc.align_declaration_tags = rng.bool();
        c.emmy_doc.align_reference_tags = rng.bool();
        c.emmy_doc.align_multiline_alias_descriptions = rng.bool();
    }
    if touch(rng) {
        c.emmy_doc.space_between_tag_columns = rng.bool();
        c.emmy_doc.space_after_description_dash = rng.bool();
        c.emmy_doc.compact_type_or = rng.bool();
    }
    if touch(rng) {
        c.align.continuous_assign_statement = rng.bool();
        c.align.table_field = rng.bool();
    }
    c
}

pub fn config_to_json(c: &LuaFormatConfig) -> Value {
    serde_json::to_value(c).unwrap_or(Value::Null)
}

pub fn config_from_json(v: &Value) -> LuaFormatConfig {
    serde_json::from_value(v.clone()).unwrap_or_default()
}

/// Reset as many top-level sections of `cfg` to their defaults as possible while `fails` stays true.
pub fn shrink_config(cfg: &LuaFormatConfig, mut fails: impl FnMut(&LuaFormatConfig) -> bool) -> LuaFormatConfig {
    let mut def = LuaFormatConfig::default();
    def.syntax.level = cfg.syntax.level;
    if fails(&def) {
        return def;
    }
    let mut cur = cfg.clone();
    let d = LuaFormatConfig::default();
    macro_rules! try_reset {
        ($field:ident) => {{
            let mut cand = cur.clone();
            cand.$field = d.$field.clone();
            if fails(&cand) {
                cur = cand;
            }
        }};
    }
    try_reset!(indent);
    try_reset!(layout);
    try_reset!(output);
    try_reset!(spacing);
    try_reset!(comments);
    try_reset!(emmy_doc);
    try_reset!(align);
    cur
}

/// Short description of the non-default top-level sections of a config (for signatures / notes).
pub fn config_delta(cfg: &LuaFormatConfig) -> Vec<String> {
    let a = config_to_json(cfg);
    let b = config_to_json(&LuaFormatConfig::default());
    let mut out = Vec::new();
    if let (Some(a), Some(b)) = (a.as_object(), b.as_object()) {
        for (sec, va) in a {
            if sec == "syntax" {
                continue;
            }
            if let (Some(oa), Some(ob)) = (va.as_object(), b.get(sec).and_then(|x| x.as_object())) {
                for (k, v) in oa {
                    if ob.get(k) != Some(v) {
                        out.push(format!("{sec}.{k}={v}"));
                    }
                }
            }
        }
    }
    out
}

// ------------------------------------------------------------------------------------------
// shared case generator for C05 / C06 / C07
// ------------------------------------------------------------------------------------------

pub struct FmtCase {
    pub family: &'static str,
    pub text: String,
    pub level_name: &'static str,
    pub cfg: LuaFormatConfig,
}

const VER_LEVEL_NAMES: [&str; 5] = ["Lua51", "Lua52", "Lua53", "Lua54", "Lua55"];

/// Hand-written seeds that exercise formatter corners named in the design (width limits, code
/// fences and aligned columns in doc comments, trailing comments after table fields, …).
pub const SEEDS: &[&str] = &[
    "local function foo(a, b, ...c)\n    return a, b, c\nend\n",
    "---@param chunk (fun(...): string) | string\n---@param name string\nfunction load(chunk, name) end\n",
    "a = b; (f)()\n",
    "local t = {\n    a = 1, -- first\n    bb = 2, -- second\n    ccc = 3, -- third\n}\n",
    "--- Example:\n--- ```lua\n--- local x = {\n---     a = 1,\n---   b = 2,\n--- }\n--- ```\n---@param a integer\n---@param bb string\nlocal function f(a, bb) end\n",
    "local s = [==[\n  keep ]] this\n]==]\nlocal u = [[\n\tindented]]\n",
    "if not (a and b) or not c then return -(-x) end\n",
    "local x = a .. 1 .. 2.0 .. \"s\" .. 3.\n",
    "f(function() return 1 end, { 1, 2, 3 }, \"string\", [[long]])\n",
    "local v = cond and function() return 1 end or function() return 2 end\n",
    "---@class A\n---@field x integer # the x\n---@field private yy? string # the y\n---@field [string] any\nlocal A = {}\n",
    "---@alias Mode\n---| 'r' # read\n---| 'w' # write\n---|+ 'rw'\n",
    "return {\n  -- leading comment\n  1, 2; 3,\n  -- trailing comment\n}\n",
    "local a <const>, b <close> = 1, nil\n",
    "goto done\ndo local x = 1 end\n::done::\n",
    "x = 1 -- c1\nyy = 2 -- c2\nzzz = 3 -- c3\n",
    "local function f(--[[ a ]] a, --[[ b ]] b) --[[ after ]] end\n",
    "call(a, -- first arg\n     b) -- done\n",
    "local str = 'it\\'s' .. \"say \\\"hi\\\"\" .. '\"' .. \"'\"\n",
    "t = { [1] = 'a'; [\"k\"] = 'b', c = { d = { e = {} } } }\n",
    "for i = 1, 10 do if i % 2 == 0 then goto continue end print(i) ::continue:: end\n",
    "function M.a.b.c:d(...) local a, b = ... return select('#', ...) end\n",
    "#!/usr/bin/lua\nprint('x')\n",
    "local veryLongVariableName = someFunction(argumentNumberOne, argumentNumberTwo, argumentNumberThree) + anotherFunction(x)\n",
    "--[[ block\n   comment ]] local a = 1 --[==[ tail ]==]\n",
    "---@type table<string, fun(a: integer, b?: string): boolean, string>\nlocal handlers = {}\n",
    "---@generic T: table, K\n---@param t T\n---@param k K\n---@return T, K\nfunction g(t, k) return t, k end\n",
    "---@overload fun(a: string): integer\n---@overload fun(a: integer, b: integer): string\nfunction o(a, b) end\n",
    "---@diagnostic disable-next-line: undefined-global\nfoo()\n---@cast x +string, -nil\n",
    "local x = f {\n  a = 1,\n} (2) 'str' [[long]]\n",
    "local y = - - 1 + not not a .. #t\n",
    "local z = 2 ^ - 3 ^ 2 // 1 ~ 5 >> 1 & 3 | 4 << 2\n",
    "return\n",
    "",
    "\n\n\n",
    "-- only a comment",
    "local a = 1\r\nlocal b = 2\r\n-- c\r\n",
];

pub fn gen_case(rng: &mut Rng, corpus: &Corpus, big: bool) -> FmtCase {
    let r = rng.below(100);
    let (family, text, level_name): (&'static str, String, &'static str) = if r < 34 {
        let ver = valid::Ver::from_index(rng.below(5));
        let opts = valid::GenOpts { size: if big { rng.range(20, 80) } else { rng.range(1, 14) }, comments: !rng.chance(1, 4), docs: rng.chance(1, 3) };
        let prog = valid::gen_program(rng, ver, &opts);
        let layout = match rng.below(5) {
            0 | 1 => valid::Layout::Pretty,
            2 => valid::Layout::Compact,
            _ => valid::Layout::Wild,
        };
        let p = prog.print(rng, layout);
        ("g-valid", p.text, VER_LEVEL_NAMES[ver.index()])
    } else if r < 52 {
        ("corpus", corpus.snippets[rng.below(corpus.snippets.len().max(1)) % corpus.snippets.len().max(1)].clone(), "Lua55")
    } else if r < 56 {
        // std library files verbatim (only the smaller ones in the quick tier)
        let mut idx = rng.below(corpus.std_files.len().max(1));
        if !big {
            for _ in 0..8 {
                if corpus.std_files.get(idx).map(|f| f.1.len() <= 24_000).unwrap_or(true) {
                    break;
                }
                idx = rng.below(corpus.std_files.len());
            }
        }
        match corpus.std_files.get(idx) {
            Some(f) => ("std-file", f.1.clone(), "Lua55"),
            None => ("seed", rng.pick(SEEDS).to_string(), "Lua55"),
        }
    } else if r < 68 {
        let base = corpus.pick(rng);
        let base = if base.len() > 6000 { &base[..{
            let mut c = 6000;
            while !base.is_char_boundary(c) {
                c -= 1;
            }
            c
        }] } else { base };
        ("corpus-mutant", soup::mutate(rng, base), LEVEL_NAMES[rng.below(8)].0)
    } else if r < 82 {
        // doc-heavy: blocks of generated annotations in front of simple statements
        let mut s = String::new();
        let n = rng.range(1, 4);
        for _ in 0..n {
            for l in valid::gen_doc_block(rng) {
                s.push_str(&l);
                s.push('\n');
            }
            s.push_str(rng.pick(&["local M = {}\n", "function M.f(a, b, ...) end\n", "local function g(a, b) return a end\n", "M.x = 1\n", "\n", "local v\n", "return M\n"]));
        }
        ("doc-heavy", s, "Lua55")
    } else if r < 92 {
        // seed, possibly repeated / concatenated to create neighbours for alignment
        let mut s = rng.pick(SEEDS).to_string();
        if rng.chance(1, 3) {
            s.push_str(rng.pick(SEEDS));
        }
        ("seed", s, LEVEL_NAMES[if rng.chance(1, 4) { rng.below(8) } else { 4 }].0)
    } else {
        // near-width lines: a call / table / binary chain whose flat width is within ±3 of the limit
        ("near-width", String::new(), "Lua55")
    };
    let mut cfg = gen_config(rng, level_name);
    let text = if family == "near-width" { near_width_text(rng, &mut cfg) } else { text };
    FmtCase { family, text, level_name, cfg }
}

fn near_width_text(rng: &mut Rng, cfg: &mut LuaFormatConfig) -> String {
    let w = rng.range(30, 100);
    cfg.layout.max_line_width = w;
    let target = (w as i64 + rng.range(0, 6) as i64 - 3).max(12) as usize;
    let kind = rng.below(5);
    let mut parts: Vec<String> = Vec::new();
    let (head, sep, tail): (&str, &str, &str) = match kind {
        0 => ("local result = compute(", ", ", ")"),
        1 => ("local t = { ", ", ", " }"),
        2 => ("if ", " and ", " then return end"),
        3 => ("return ", " .. ", ""),
        _ => ("obj:method(", ", ", "):next(1):again(\"x\")"),
    };
    let mut len = head.len() + tail.len();
    let words = ["alpha", "beta1", "gamma_delta", "x", "'str'", "123", "f(y)", "t.k", "not z", "#list"];
    while len < target {
        let wd = words[rng.below(words.len())];
        let wd = if kind == 1 && rng.chance(1, 3) { format!("k{} = {}", parts.len(), wd) } else { wd.to_string() };
        let add = wd.len() + if parts.is_empty() { 0 } else { sep.len() };
        if len + add > target && !parts.is_empty() {
            // pad the last word to hit the target exactly
            let pad = target - len;
            if pad > sep.len() {
                parts.push("a".repeat(pad - sep.len()));
            }
            break;
        }
        len += add;
        parts.push(wd);
    }
    let mut s = format!("{head}{}{tail}", parts.join(sep));
    if rng.chance(1, 3) {
        s.push_str(" -- trailing comment");
    }
    s.push('\n');
    if rng.bool() {
        s = format!("local function wrap()\n    {s}end\n");
    }
    s
}

// ------------------------------------------------------------------------------------------
// text shrinking
// ------------------------------------------------------------------------------------------

/// Shrink `text` while `fails(text)` stays true: by lines, then by whitespace-delimited pieces,
/// then (for short texts) by characters.
pub fn shrink_text(text: &str, mut fails0: impl FnMut(&str) -> bool, budget: usize) -> String {
    // CPU-time cap (never a verdict: it only bounds how small the witness gets)
    let t0 = crate::util::thread_cpu();
    let cap = shrink_cpu_cap();
    let mut fails = move |t: &str| -> bool {
        if crate::util::thread_cpu() - t0 > cap {
            return false;
        }
        fails0(t)
    };
    let lines: Vec<String> = text.split_inclusive('\n').map(|s| s.to_string()).collect();
    let lines = crate::util::ddmin(lines, |p| fails(&p.concat()), budget);
    let t: String = lines.concat();
    let pieces = soup::split_keep_ws(&t);
    let pieces = if pieces.len() <= 4000 { crate::util::ddmin(pieces, |p| fails(&p.concat()), budget) } else { pieces };
    let t: String = pieces.concat();
    let chars: Vec<String> = t.chars().map(|c| c.to_string()).collect();
    if chars.len() <= 400 {
        let chars = crate::util::ddmin(chars, |p| fails(&p.concat()), budget);
        chars.concat()
    } else {
        t
    }
}

/// CPU seconds one shrink may use (VERIF_SHRINK_CPU overrides; default 2.5 s).
pub fn shrink_cpu_cap() -> f64 {
    std::env::var("VERIF_SHRINK_CPU").ok().and_then(|v| v.parse().ok()).unwrap_or(2.5)
}

pub fn _unused(_: Value) -> Value {
    json!(null)
}

// ------------------------------------------------------------------------------------------
// the C05 oracle on a pair (input, output) — also used by C07 on (document, spliced document)
// ------------------------------------------------------------------------------------------

/// Number of parse errors of any kind (syntax and doc) — shrinking must not introduce new ones, so
/// that witnesses stay well-formed programs with well-formed annotations.
pub fn error_count(text: &str, level: LuaLanguageLevel) -> usize {
    parse(text, level).get_errors().len()
}

pub fn sanitize_msg(m: &str) -> String {
    let mut out = String::new();
    let mut in_quote = false;
    for c in m.chars() {
        if c == '\'' || c == '`' || c == '"' {
            in_quote = !in_quote;
            out.push('\'');
            continue;
        }
        if in_quote {
            continue;
        }
        out.push(if c.is_ascii_digit() { '#' } else { c });
    }
    while out.contains("##") {
        out = out.replace("##", "#");
    }
    out.truncate(60);
    out.replace(' ', "_")
}

/// Number of statement-level `;` that are directly followed by `(` — dropping one of those glues two
/// statements together (`a = b; (f)()`), which is one root cause whatever the parser then makes of it.
pub fn semis_before_paren(text: &str) -> usize {
    let toks: Vec<LTok> = lex(text).into_iter().filter(|t| t.kind != LK::Comment).collect();
    (1..toks.len()).filter(|&i| toks[i].kind == LK::Op && toks[i].text == "(" && toks[i - 1].kind == LK::Op && toks[i - 1].text == ";").count()
}

pub struct PairOk {
    pub code_tokens: usize,
    pub comment_tokens: usize,
    pub stats: usize,
}

/// Clauses 2–4 of C05 for an error-free `src` and the text `out` produced from it.
pub fn judge_pair(src: &str, src_tree: &LuaSyntaxTree, out: &str, level: LuaLanguageLevel, cfg: &LuaFormatConfig) -> Result<PairOk, Mismatch> {
    let out_tree = parse(out, level);
    if out_tree.has_syntax_errors() {
        // say *what* broke, if the own lexer can tell: a token-level difference is the better discriminator
        let (sroot, oroot) = (src_tree.get_red_root(), out_tree.get_red_root());
        compare_code(src, &sroot, out, &oroot, cfg)?;
        let e = out_tree.get_errors().iter().find(|e| e.kind == emmylua_parser::LuaParseErrorKind::SyntaxError);
        let (msg, at) = match e {
            Some(e) => (e.message.clone(), usize::from(e.range.start())),
            None => (String::new(), 0),
        };
        let lo = at.saturating_sub(30).min(out.len());
        let mut lo2 = lo;
        while !out.is_char_boundary(lo2) {
            lo2 += 1;
        }
        let mut hi = (at + 30).min(out.len());
        while !out.is_char_boundary(hi) {
            hi -= 1;
        }
        let kind = enclosing_kind(&oroot, at);
        let detail = format!("same code tokens, but the output has a syntax error: {msg} near {:?}", &out[lo2..hi.max(lo2)]);
        if semis_before_paren(src) > semis_before_paren(out) {
            return Err(Mismatch { clause: "stat-structure".into(), what: "semicolon-before-paren-dropped".into(), detail });
        }
        return Err(Mismatch { clause: "output-parses".into(), what: format!("at={kind}:{}", sanitize_msg(&msg)), detail });
    }
    let sroot = src_tree.get_red_root();
    let oroot = out_tree.get_red_root();
    let code_tokens = compare_code(src, &sroot, out, &oroot, cfg)?;
    let stats = compare_stats(&sroot, &oroot).map_err(|m| if semis_before_paren(src) > semis_before_paren(out) { Mismatch { clause: "stat-structure".into(), what: "semicolon-before-paren-dropped".into(), detail: m.detail } } else { m })?;
    let doc_errors_in = !src_tree.get_errors().is_empty();
    let comment_tokens = compare_comments(&sroot, &oroot, !doc_errors_in && cfg.layout.max_blank_lines >= 1, doc_errors_in)?;
    Ok(PairOk { code_tokens, comment_tokens, stats })
}
