//! Command line of the worker binaries (`vcheck`: with the shipped allocator; `vtsan`: the same
//! without it, for sanitizer builds).
use crate::report::{Ctx, Tier};

fn usage() -> ! {
    eprintln!("usage: vcheck <PROP> [--seed N] [--shard I] [--nshards N] [--tier quick|thorough] [--out FILE] [--replay FILE] [--max-secs S] [--scale F] [--stack BYTES]");
    std::process::exit(2)
}

pub fn main() {
    let args: Vec<String> = std::env::args().collect();
    if args.len() < 2 {
        usage();
    }
    let mut ctx = Ctx::new(&args[1]);
    let mut stack: usize = 64 << 20;
    let mut i = 2;
    while i < args.len() {
        let a = args[i].as_str();
        let v = args.get(i + 1).cloned();
        let need = || v.clone().unwrap_or_else(|| usage());
        match a {
            "--seed" => ctx.seed = need().parse().unwrap_or_else(|_| usage()),
            "--shard" => ctx.shard = need().parse().unwrap_or_else(|_| usage()),
            "--nshards" => ctx.nshards = need().parse().unwrap_or_else(|_| usage()),
            "--tier" => ctx.tier = if need() == "thorough" { Tier::Thorough } else { Tier::Quick },
            "--out" => ctx.out = Some(need()),
            "--max-secs" => ctx.max_secs = need().parse().unwrap_or_else(|_| usage()),
            "--scale" => ctx.scale = need().parse().unwrap_or_else(|_| usage()),
            "--stack" => stack = need().parse().unwrap_or_else(|_| usage()),
            "--replay" => {
                let s = std::fs::read_to_string(need()).unwrap_or_else(|e| {
                    eprintln!("cannot read replay file: {e}");
                    std::process::exit(2)
                });
                let v: serde_json::Value = serde_json::from_str(&s).unwrap_or_else(|e| {
                    eprintln!("bad replay file: {e}");
                    std::process::exit(2)
                });
                // replay files written by the driver wrap the case under "replay"
                ctx.replay = Some(if v.get("replay").is_some() { v["replay"].clone() } else { v });
            }
            _ => usage(),
        }
        i += 2;
    }
    let _ = std::fs::create_dir_all(&ctx.work);
    crate::util::install_panic_hook();
    // Run on a big stack by default: properties that care about stack depth use their own threads.
    let h = std::thread::Builder::new()
        .stack_size(stack)
        .spawn(move || {
            let known = crate::props::run(&mut ctx);
            if !known {
                eprintln!("unknown property {}", ctx.property);
                std::process::exit(2);
            }
            ctx.finish();
            ctx.sig_counts.is_empty()
        })
        .expect("spawn main worker");
    match h.join() {
        Ok(true) => std::process::exit(0),
        Ok(false) => std::process::exit(1),
        Err(_) => {
            eprintln!("harness worker panicked outside a guarded region");
            std::process::exit(3)
        }
    }
}
