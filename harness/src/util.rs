//! Panic capture, guarded execution on an explicit stack, CPU-time clock, ddmin shrinking.

use std::cell::RefCell;
use std::panic::{AssertUnwindSafe, catch_unwind};
use std::sync::Once;

#[derive(Clone, Debug)]
pub struct PanicInfo {
    pub message: String,
    pub location: String,
    /// innermost frames inside /repo/crates (function names), outermost last
    pub frames: Vec<String>,
}

impl PanicInfo {
    /// stable signature: location file + message with digits stripped
    pub fn sig(&self) -> String {
        let file = self.location.split(':').next().unwrap_or("").to_string();
        let file = file.rsplit("crates/").next().unwrap_or(&file).to_string();
        let file = if file.contains(".cargo/registry") || file.contains("/rustc/") {
            // panic raised inside a dependency / std: attribute to the first in-repo frame
            match self.frames.first() {
                Some(f) => format!("dep@{}", strip_hash(f)),
                None => file.rsplit('/').take(3).collect::<Vec<_>>().into_iter().rev().collect::<Vec<_>>().join("/"),
            }
        } else {
            file
        };
        let mut msg: String = self.message.chars().map(|c| if c.is_ascii_digit() { '#' } else { c }).collect();
        // collapse runs of '#'
        while msg.contains("##") {
            msg = msg.replace("##", "#");
        }
        if msg.len() > 80 {
            let mut cut = 80;
            while !msg.is_char_boundary(cut) {
                cut -= 1;
            }
            msg.truncate(cut);
        }
        format!("{file}:{msg}")
    }
}

fn strip_hash(f: &str) -> String {
    // remove trailing ::h0123456789abcdef
    match f.rfind("::h") {
        Some(i) if f.len() - i == 19 => f[..i].to_string(),
        _ => f.to_string(),
    }
}

thread_local! {
    static LAST_PANIC: RefCell<Option<PanicInfo>> = const { RefCell::new(None) };
    static QUIET: RefCell<bool> = const { RefCell::new(false) };
}

static HOOK: Once = Once::new();
static GLOBAL_PANICS: std::sync::Mutex<Vec<PanicInfo>> = std::sync::Mutex::new(Vec::new());

/// Install the recording panic hook (idempotent). Panics are recorded per thread and globally.
pub fn install_panic_hook() {
    HOOK.call_once(|| {
        std::panic::set_hook(Box::new(|info| {
            let message = if let Some(s) = info.payload().downcast_ref::<&str>() {
                s.to_string()
            } else if let Some(s) = info.payload().downcast_ref::<String>() {
                s.clone()
            } else {
                "<non-string panic>".to_string()
            };
            let location = info.location().map(|l| format!("{}:{}:{}", l.file(), l.line(), l.column())).unwrap_or_default();
            let bt = std::backtrace::Backtrace::force_capture().to_string();
            let mut frames = Vec::new();
            let lines: Vec<&str> = bt.lines().collect();
            let mut i = 0;
            while i + 1 < lines.len() {
                let l = lines[i].trim();
                let at = lines[i + 1].trim();
                if at.starts_with("at ") {
                    if at.contains("/repo/crates/") || at.contains("./crates/") {
                        if let Some(pos) = l.find(": ") {
                            frames.push(l[pos + 2..].to_string());
                        }
                    }
                    i += 2;
                } else {
                    i += 1;
                }
            }
            frames.truncate(6);
            let pi = PanicInfo { message, location, frames };
            if !QUIET.with(|q| *q.borrow()) {
                eprintln!("[harness] unguarded panic: {} at {}", pi.message, pi.location);
            }
            if let Ok(mut g) = GLOBAL_PANICS.lock() {
                if g.len() < 1000 {
                    g.push(pi.clone());
                }
            }
            LAST_PANIC.with(|p| *p.borrow_mut() = Some(pi));
        }));
    });
}

pub fn take_global_panics() -> Vec<PanicInfo> {
    GLOBAL_PANICS.lock().map(|mut g| std::mem::take(&mut *g)).unwrap_or_default()
}

/// Run `f` under catch_unwind on the current thread.
pub fn guarded<T>(f: impl FnOnce() -> T) -> Result<T, PanicInfo> {
    install_panic_hook();
    LAST_PANIC.with(|p| *p.borrow_mut() = None);
    let prev = QUIET.with(|q| q.replace(true));
    let r = catch_unwind(AssertUnwindSafe(f));
    QUIET.with(|q| *q.borrow_mut() = prev);
    match r {
        Ok(v) => Ok(v),
        Err(_) => Err(LAST_PANIC.with(|p| p.borrow_mut().take()).unwrap_or(PanicInfo {
            message: "<panic without hook info>".into(),
            location: String::new(),
            frames: vec![],
        })),
    }
}

/// Run `f` on a fresh thread with an explicit stack size (a stack overflow there aborts the
/// whole process — that is observed by the driver through the announce file).
pub fn on_stack<T: Send>(stack: usize, f: impl FnOnce() -> T + Send) -> Result<T, PanicInfo> {
    install_panic_hook();
    std::thread::scope(|s| {
        let h = std::thread::Builder::new()
            .stack_size(stack)
            .spawn_scoped(s, move || guarded(f))
            .expect("spawn");
        match h.join() {
            Ok(r) => r,
            Err(_) => Err(PanicInfo { message: "<thread join failed>".into(), location: String::new(), frames: vec![] }),
        }
    })
}

/// CPU time consumed by the calling thread, in seconds.
pub fn thread_cpu() -> f64 {
    let mut ts = libc::timespec { tv_sec: 0, tv_nsec: 0 };
    unsafe {
        libc::clock_gettime(libc::CLOCK_THREAD_CPUTIME_ID, &mut ts);
    }
    ts.tv_sec as f64 + ts.tv_nsec as f64 * 1e-9
}

/// Delta debugging over a list of parts: returns a (locally) minimal sub-list for which
/// `fails` is still true. `fails` must be deterministic.
pub fn ddmin<T: Clone>(parts: Vec<T>, mut fails: impl FnMut(&[T]) -> bool, max_tests: usize) -> Vec<T> {
    let mut cur = parts;
    let mut n = 2usize;
    let mut tests = 0usize;
    while cur.len() >= 2 && tests < max_tests {
        let chunk = (cur.len() + n - 1) / n;
        let mut reduced = false;
        let mut i = 0;
        while i < cur.len() && tests < max_tests {
            let mut cand = Vec::with_capacity(cur.len());
            cand.extend_from_slice(&cur[..i]);
            let end = (i + chunk).min(cur.len());
            cand.extend_from_slice(&cur[end..]);
            tests += 1;
            if !cand.is_empty() && fails(&cand) {
                cur = cand;
                n = n.saturating_sub(1).max(2);
                reduced = true;
                break;
            }
            i += chunk;
        }
        if !reduced {
            if n >= cur.len() {
                break;
            }
            n = (n * 2).min(cur.len());
        }
    }
    cur
}

/// Redirect HOME / XDG dirs to a private empty directory (code under test reads and writes there).
pub fn private_home(work: &str, tag: &str) -> String {
    let dir = format!("{work}/home-{tag}-{}", std::process::id());
    let _ = std::fs::create_dir_all(&dir);
    unsafe {
        std::env::set_var("HOME", &dir);
        std::env::set_var("XDG_CONFIG_HOME", format!("{dir}/.config"));
        std::env::set_var("XDG_DATA_HOME", format!("{dir}/.local/share"));
        std::env::set_var("XDG_CACHE_HOME", format!("{dir}/.cache"));
    }
    dir
}

/// Outcome of re-executing one case in a sacrificial child process (`vcheck <prop> --replay f`).
#[derive(Debug, Clone)]
pub enum ChildOutcome {
    Held,
    Violated(Vec<String>),
    /// killed by this signal (11 = SIGSEGV, 6 = SIGABRT: stack overflow / allocation failure)
    Died(i32),
    /// generous wall-clock watchdog fired — inconclusive by itself
    Timeout,
    Error(String),
}

/// Run one case of `prop` in a fresh process of this same binary. Used where the code under
/// test may abort the process (stack overflow escapes catch_unwind).
pub fn isolated(prop: &str, case: &serde_json::Value, work: &str, timeout_s: u64) -> ChildOutcome {
    use std::os::unix::process::ExitStatusExt;
    static N: std::sync::atomic::AtomicU64 = std::sync::atomic::AtomicU64::new(0);
    let n = N.fetch_add(1, std::sync::atomic::Ordering::Relaxed);
    let dir = format!("{work}/iso-{}-{n}", std::process::id());
    if std::fs::create_dir_all(&dir).is_err() {
        return ChildOutcome::Error("mkdir".into());
    }
    let rp = format!("{dir}/case.json");
    let out = format!("{dir}/out.json");
    let _ = std::fs::write(&rp, serde_json::to_vec(&serde_json::json!({"property": prop, "replay": case})).unwrap_or_default());
    let exe = match std::env::current_exe() {
        Ok(e) => e,
        Err(e) => return ChildOutcome::Error(e.to_string()),
    };
    let child = std::process::Command::new(exe)
        .args([prop, "--replay", &rp, "--out", &out])
        .stdout(std::process::Stdio::null())
        .stderr(std::process::Stdio::null())
        .spawn();
    let mut child = match child {
        Ok(c) => c,
        Err(e) => return ChildOutcome::Error(e.to_string()),
    };
    let t0 = std::time::Instant::now();
    let status = loop {
        match child.try_wait() {
            Ok(Some(s)) => break Some(s),
            Ok(None) => {
                if t0.elapsed().as_secs() > timeout_s {
                    let _ = child.kill();
                    let _ = child.wait();
                    break None;
                }
                std::thread::sleep(std::time::Duration::from_millis(5));
            }
            Err(_) => break None,
        }
    };
    let res = match status {
        None => ChildOutcome::Timeout,
        Some(s) => {
            if let Some(sig) = s.signal() {
                ChildOutcome::Died(sig)
            } else {
                match std::fs::read(&out).ok().and_then(|b| serde_json::from_slice::<serde_json::Value>(&b).ok()) {
                    Some(v) => {
                        let sigs: Vec<String> = v["sig_counts"].as_object().map(|m| m.keys().cloned().collect()).unwrap_or_default();
                        if sigs.is_empty() { ChildOutcome::Held } else { ChildOutcome::Violated(sigs) }
                    }
                    None => ChildOutcome::Error(format!("no result, exit {:?}", s.code())),
                }
            }
        }
    };
    let _ = std::fs::remove_dir_all(&dir);
    res
}

/// Classify a crash of `vcheck <prop> --replay <case>` by running it once more under gdb and
/// taking the most frequent in-repo function of the top of the stack (stack overflows repeat it).
pub fn abort_signature(prop: &str, case: &serde_json::Value, work: &str) -> String {
    static N: std::sync::atomic::AtomicU64 = std::sync::atomic::AtomicU64::new(0);
    let n = N.fetch_add(1, std::sync::atomic::Ordering::Relaxed);
    let rp = format!("{work}/gdbcase-{}-{n}.json", std::process::id());
    if std::fs::write(&rp, serde_json::to_vec(&serde_json::json!({"property": prop, "replay": case})).unwrap_or_default()).is_err() {
        return "unclassified".into();
    }
    let Ok(exe) = std::env::current_exe() else { return "unclassified".into() };
    let out = std::process::Command::new("gdb")
        .args(["-batch", "-ex", "run", "-ex", "bt 120", "--args"])
        .arg(exe)
        .args([prop, "--replay", &rp])
        .output();
    let _ = std::fs::remove_file(&rp);
    let Ok(out) = out else { return "unclassified".into() };
    let text = String::from_utf8_lossy(&out.stdout);
    let mut counts: std::collections::BTreeMap<String, usize> = std::collections::BTreeMap::new();
    for line in text.lines() {
        if !line.starts_with('#') {
            continue;
        }
        // "#12 0x… in emmylua_code_analysis::a::b::func (…) at …" or "#0  emmylua…::func (…)"
        if let Some(pos) = line.find("emmylua_") {
            let rest = &line[pos..];
            let name: String = rest.split(|c: char| c == ' ' || c == '(' || c == '<').next().unwrap_or("").to_string();
            if name.contains("::") {
                *counts.entry(name).or_insert(0) += 1;
            }
        }
    }
    let sigkind = if text.contains("SIGSEGV") { "SIGSEGV" } else if text.contains("SIGABRT") { "SIGABRT" } else { "signal" };
    match counts.into_iter().max_by_key(|(_, c)| *c) {
        Some((f, c)) if c >= 3 => format!("stack-overflow:{f}"),
        Some((f, _)) => format!("{sigkind}:{f}"),
        None => sigkind.to_string(),
    }
}
