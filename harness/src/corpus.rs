//! G-corpus: Lua snippets harvested from the *current* tree: the bundled std library plus
//! every r#"…"# literal inside test modules of the crates.

use std::path::Path;

fn walk(dir: &Path, out: &mut Vec<std::path::PathBuf>) {
    let Ok(rd) = std::fs::read_dir(dir) else { return };
    let mut entries: Vec<_> = rd.filter_map(|e| e.ok()).map(|e| e.path()).collect();
    entries.sort();
    for p in entries {
        if p.is_dir() {
            if p.file_name().map(|n| n == "target" || n == ".git").unwrap_or(false) {
                continue;
            }
            walk(&p, out);
        } else {
            out.push(p);
        }
    }
}

/// All `.lua` files below `crates/` (std library resources mostly).
pub fn lua_files(repo: &str) -> Vec<(String, String)> {
    let mut files = Vec::new();
    walk(&Path::new(repo).join("crates"), &mut files);
    let mut out = Vec::new();
    for f in files {
        if f.extension().map(|e| e == "lua").unwrap_or(false) {
            if let Ok(s) = std::fs::read_to_string(&f) {
                out.push((f.to_string_lossy().to_string(), s));
            }
        }
    }
    out
}

/// Raw-string literals from Rust sources whose path mentions "test".
pub fn rust_test_literals(repo: &str) -> Vec<String> {
    let mut files = Vec::new();
    walk(&Path::new(repo).join("crates"), &mut files);
    let mut out = Vec::new();
    for f in files {
        let p = f.to_string_lossy();
        if !p.ends_with(".rs") || !p.contains("test") {
            continue;
        }
        let Ok(src) = std::fs::read_to_string(&f) else { continue };
        let b = src.as_bytes();
        let mut i = 0;
        while i + 3 < b.len() {
            if b[i] == b'r' && b[i + 1] == b'#' && b[i + 2] == b'"' {
                let start = i + 3;
                if let Some(rel) = src[start..].find("\"#") {
                    let lit = &src[start..start + rel];
                    if lit.len() >= 8 && lit.len() <= 20_000 {
                        out.push(dedent(lit));
                    }
                    i = start + rel + 2;
                    continue;
                }
            }
            i += 1;
        }
    }
    out.sort();
    out.dedup();
    out
}

fn dedent(s: &str) -> String {
    let min = s
        .lines()
        .filter(|l| !l.trim().is_empty())
        .map(|l| l.len() - l.trim_start().len())
        .min()
        .unwrap_or(0);
    let mut out = String::with_capacity(s.len());
    for (i, l) in s.split('\n').enumerate() {
        if i > 0 {
            out.push('\n');
        }
        if l.len() >= min && l.is_char_boundary(min) && l[..min].trim().is_empty() {
            out.push_str(&l[min..]);
        } else {
            out.push_str(l.trim_start());
        }
    }
    out
}

pub struct Corpus {
    pub std_files: Vec<(String, String)>,
    pub snippets: Vec<String>,
}

impl Corpus {
    pub fn load(repo: &str) -> Corpus {
        Corpus { std_files: lua_files(repo), snippets: rust_test_literals(repo) }
    }
    pub fn len(&self) -> usize {
        self.std_files.len() + self.snippets.len()
    }
    pub fn is_empty(&self) -> bool {
        self.len() == 0
    }
    pub fn get(&self, i: usize) -> &str {
        if i < self.std_files.len() { &self.std_files[i].1 } else { &self.snippets[i - self.std_files.len()] }
    }
    pub fn pick<'a>(&'a self, rng: &mut crate::rng::Rng) -> &'a str {
        self.get(rng.below(self.len()))
    }
}
