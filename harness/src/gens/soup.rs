//! G-soup: fragment soup that is hostile to lexer/parser recovery paths.

use crate::rng::Rng;

pub const KEYWORDS: &[&str] = &[
    "and", "break", "do", "else", "elseif", "end", "false", "for", "function", "goto", "if", "in", "local", "nil", "not",
    "or", "repeat", "return", "then", "true", "until", "while", "global",
];
pub const OPS: &[&str] = &[
    "+", "-", "*", "/", "//", "%", "^", "#", "&", "~", "|", "<<", ">>", "==", "~=", "<=", ">=", "<", ">", "=", "(", ")",
    "{", "}", "[", "]", "::", ";", ":", ",", ".", "..", "...", "?", "!", "@", "$", "\\", "`", "+=", "-=", "!=", "&&", "||", "->",
];
pub const LITERALS: &[&str] = &[
    "0", "1", "42", "3.14", "0x1F", "0x.1p4", "1e10", "1e", "0x", "1..2", "0xA.8p-1", "1LL", "2ULL", "3i", "0b101", "9223372036854775808",
    "\"s\"", "'c'", "\"a\\nb\"", "\"\\x41\"", "\"\\u{1F600}\"", "\"\\z  x\"", "\"unterminated", "'half", "\"bad\\qescape\"",
    "[[long]]", "[==[lvl2]==]", "[==[ never closed", "[=[x]]", "[[\nmulti\nline]]",
];
pub const NAMES: &[&str] = &["a", "b", "x", "foo", "self", "_G", "t", "f", "é", "名", "a1", "_"];
pub const COMMENTS: &[&str] = &[
    "--", "-- c", "--[[ block ]]", "--[==[ b ]==]", "--[[ unterminated", "--region", "--endregion", "--region r", "---", "--- desc",
    "#!shebang", "//cmt", "/* c */", "--[[@as string]]", "--[[@cast x string]]", "---@", "---|", "---| 'a' # d", "--- ```lua", "--- ```",
];
pub const DOC_TAGS: &[&str] = &[
    "---@class A", "---@class A: B, C", "---@class (partial) A<T>", "---@field x integer", "---@field [string] any", "---@field private y? string",
    "---@type string", "---@type A|B?", "---@type fun(a: integer, ...: any): string, integer", "---@type table<string, integer[]>", "---@type {a: integer, [1]: string}",
    "---@type [integer, string]", "---@type (A|B)[]", "---@type A<", "---@type fun(", "---@type {", "---@type 'lit'|1|true",
    "---@param a integer", "---@param ... string", "---@param a? fun():", "---@return integer, string", "---@return boolean ok # comment",
    "---@alias X", "---@alias X integer|string", "---@enum E", "---@enum (key) E", "---@generic T, K: string", "---@overload fun(a: string): integer",
    "---@diagnostic disable-next-line: undefined-global", "---@diagnostic disable", "---@diagnostic enable: x", "---@cast x +string, -nil", "---@cast",
    "---@see A#b", "---@deprecated", "---@async", "---@nodiscard", "---@meta", "---@meta name", "---@module 'a.b'", "---@operator add(A): A",
    "---@version >5.1, JIT", "---@source file.lua:10", "---@as string", "---@namespace N", "---@using N", "---@export", "---@language lua",
    "---@attribute x(a: integer)", "---@[deprecated]", "---@[", "---@readonly", "---@private", "---@type A extends B and C or D", "---@type keyof A",
    "---@type T...", "---@type `T`", "---@type A.B.C", "---@type \"str\\\"esc\"", "---@type -1", "---@type A & B", "---@unknown_tag whatever",
    "---@return_cast x string", "---@return_cast x string else integer", "---@schema foo", "---@callsuper", "---@tparam T", "---@field a integer @ old style",
];
pub const WS: &[&str] = &[" ", " ", "  ", "\t", "\n", "\n", "\r\n", "\r", "\n\n", "\u{feff}", "\0", "\u{a0}", "\u{2028}", "\x0b", "\x0c"];
pub const ODD: &[&str] = &["\0", "\u{feff}", "😀", "e\u{301}", "\u{fffd}", "\u{7f}", "\u{1}", "ßß", "𝔘", "\u{200b}"];

pub fn fragment(rng: &mut Rng) -> &'static str {
    match rng.below(100) {
        0..=17 => rng.pick(KEYWORDS),
        18..=33 => rng.pick(OPS),
        34..=43 => rng.pick(LITERALS),
        44..=55 => rng.pick(NAMES),
        56..=63 => rng.pick(COMMENTS),
        64..=75 => rng.pick(DOC_TAGS),
        76..=95 => rng.pick(WS),
        _ => rng.pick(ODD),
    }
}

/// A soup as a list of fragments (kept as a list so that failures can be shrunk by ddmin).
pub fn soup_parts(rng: &mut Rng, max_frags: usize) -> Vec<String> {
    let n = rng.range(1, max_frags.max(1));
    let glue = rng.below(3); // 0: always space-ish, 1: sometimes nothing, 2: newlines likely
    let mut parts = Vec::with_capacity(n * 2);
    for _ in 0..n {
        parts.push(fragment(rng).to_string());
        match glue {
            0 => parts.push(" ".into()),
            1 => {
                if rng.bool() {
                    parts.push(rng.pick(WS).to_string())
                }
            }
            _ => parts.push(if rng.chance(1, 3) { "\n".into() } else { " ".into() }),
        }
    }
    parts
}

pub fn soup(rng: &mut Rng, max_frags: usize) -> String {
    soup_parts(rng, max_frags).concat()
}

/// Random bytes decoded lossily (the only way arbitrary bytes can reach a `&str` API).
pub fn lossy_bytes(rng: &mut Rng, max_len: usize) -> String {
    let n = rng.range(0, max_len);
    let mut v = Vec::with_capacity(n);
    for _ in 0..n {
        let b = match rng.below(10) {
            0..=5 => { let a = b" \n\t-[]=\"'{}()@|,.:;ax1"; a[rng.below(a.len())] }
            6..=7 => rng.below(128) as u8,
            _ => rng.below(256) as u8,
        };
        v.push(b);
    }
    String::from_utf8_lossy(&v).into_owned()
}

/// Mutate a real program: token-ish splice / delete / duplicate / swap at character level
/// on whitespace-delimited pieces, plus line-level edits.
pub fn mutate(rng: &mut Rng, src: &str) -> String {
    let mut pieces: Vec<String> = split_keep_ws(src);
    if pieces.is_empty() {
        return soup(rng, 10);
    }
    let edits = rng.range(1, 4);
    for _ in 0..edits {
        if pieces.is_empty() {
            break;
        }
        let i = rng.below(pieces.len());
        match rng.below(7) {
            0 => {
                pieces.remove(i);
            }
            1 => {
                let p = pieces[i].clone();
                pieces.insert(i, p);
            }
            2 => {
                let j = rng.below(pieces.len());
                pieces.swap(i, j);
            }
            3 => pieces.insert(i, fragment(rng).to_string()),
            4 => pieces[i] = fragment(rng).to_string(),
            5 => {
                // truncate the program here
                pieces.truncate(i);
            }
            _ => {
                // cut a piece in the middle (on a char boundary)
                let p = &pieces[i];
                if p.len() > 1 {
                    let mut cut = rng.range(1, p.len() - 1);
                    while !p.is_char_boundary(cut) {
                        cut -= 1;
                    }
                    if cut > 0 {
                        pieces[i] = p[..cut].to_string();
                    }
                }
            }
        }
    }
    pieces.concat()
}

pub fn split_keep_ws(src: &str) -> Vec<String> {
    let mut out = Vec::new();
    let mut cur = String::new();
    let mut cur_ws: Option<bool> = None;
    for c in src.chars() {
        let ws = c.is_whitespace();
        if cur_ws.is_some() && cur_ws != Some(ws) {
            out.push(std::mem::take(&mut cur));
        }
        cur_ws = Some(ws);
        cur.push(c);
    }
    if !cur.is_empty() {
        out.push(cur);
    }
    out
}
