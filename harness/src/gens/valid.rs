//! G-valid(v): Lua programs that are valid *by construction* for Lua version v, generated from an
//! AST of our own following the reference-manual grammar of that version, and G-invalid: one
//! mutation of the printed token list that makes the program ungrammatical in every version.
//!
//! What "valid" covers: the context-free grammar plus the few context conditions the reference
//! compiler checks at compile time and that we can keep trivially true:
//!   * `break` only inside loops (5.1: only as last statement of a block), `return` last in block,
//!   * `...` only inside vararg functions / the main chunk,
//!   * goto only to a visible label: backward to a label earlier in the same block, or forward to
//!     a label that is the last statement of an enclosing block (never into the scope of a local),
//!     label names unique per program,
//!   * `<const>`/`<close>` locals and loop control variables are never assigned, one `<close>` per
//!     declaration,
//!   * 5.5 `global` declarations only inside a dedicated `do … end` that uses declared names only.
//! Version gating follows the manuals: goto/labels/`;` statements/`\z`/`\x`/hex floats ≥ 5.2,
//! `//` and bitwise operators and `\u{}` ≥ 5.3, attribs ≥ 5.4, `global` and named varargs 5.5.
//!
//! The printer produces a token list (kind + text) and a layout (whitespace / comments between
//! tokens); the token list is the reference token sequence of the program.

use crate::rng::Rng;
use emmylua_parser::LuaLanguageLevel;
use std::collections::{BTreeMap, BTreeSet};

#[derive(Clone, Copy, Debug, PartialEq, Eq, PartialOrd, Ord)]
pub enum Ver {
    L51,
    L52,
    L53,
    L54,
    L55,
}

pub const VERSIONS: [Ver; 5] = [Ver::L51, Ver::L52, Ver::L53, Ver::L54, Ver::L55];

impl Ver {
    pub fn level(self) -> LuaLanguageLevel {
        match self {
            Ver::L51 => LuaLanguageLevel::Lua51,
            Ver::L52 => LuaLanguageLevel::Lua52,
            Ver::L53 => LuaLanguageLevel::Lua53,
            Ver::L54 => LuaLanguageLevel::Lua54,
            Ver::L55 => LuaLanguageLevel::Lua55,
        }
    }
    pub fn name(self) -> &'static str {
        match self {
            Ver::L51 => "5.1",
            Ver::L52 => "5.2",
            Ver::L53 => "5.3",
            Ver::L54 => "5.4",
            Ver::L55 => "5.5",
        }
    }
    /// the spelling used by `runtime.version` in .emmyrc
    pub fn emmyrc_name(self) -> &'static str {
        match self {
            Ver::L51 => "Lua5.1",
            Ver::L52 => "Lua5.2",
            Ver::L53 => "Lua5.3",
            Ver::L54 => "Lua5.4",
            Ver::L55 => "Lua5.5",
        }
    }
    pub fn from_index(i: usize) -> Ver {
        VERSIONS[i % 5]
    }
    pub fn index(self) -> usize {
        VERSIONS.iter().position(|v| *v == self).unwrap()
    }
}

// ------------------------------------------------------------------------------------------
// AST
// ------------------------------------------------------------------------------------------

#[derive(Clone, Debug)]
pub enum Expr {
    Nil,
    True,
    False,
    Vararg,
    Num(String),
    /// source text of a short string including quotes
    Str(String),
    /// source text of a long string including brackets
    LongStr(String),
    Name(String),
    Index(Box<Expr>, Box<Expr>),
    Field(Box<Expr>, String),
    Call(Box<Expr>, Args),
    Method(Box<Expr>, String, Args),
    Func(Box<FuncBody>),
    Bin(&'static str, Box<Expr>, Box<Expr>),
    Un(&'static str, Box<Expr>),
    Paren(Box<Expr>),
    Table(Vec<TField>, Vec<&'static str>),
}

#[derive(Clone, Debug)]
pub enum TField {
    Pos(Expr),
    Named(String, Expr),
    Keyed(Expr, Expr),
}

#[derive(Clone, Debug)]
pub enum Args {
    Paren(Vec<Expr>),
    Str(Box<Expr>),
    Table(Box<Expr>),
}

#[derive(Clone, Debug)]
pub struct FuncBody {
    pub params: Vec<String>,
    /// None: not vararg; Some(None): `...`; Some(Some(n)): `...n` (5.5)
    pub vararg: Option<Option<String>>,
    pub body: Block,
}

#[derive(Clone, Debug, Default)]
pub struct Block {
    pub stats: Vec<Stat>,
}

#[derive(Clone, Debug)]
pub struct Stat {
    /// 0 = not individually removable while shrinking (labels, gotos, break/return)
    pub id: u32,
    pub kind: SK,
    /// comment lines printed before the statement (each is a complete comment, no newline)
    pub lead: Vec<String>,
    /// short comment printed after the statement on the same line
    pub trail: Option<String>,
    /// print a `;` after the statement
    pub semi: bool,
}

#[derive(Clone, Debug)]
pub enum SK {
    Empty,
    Assign(Vec<Expr>, Vec<Expr>),
    Call(Expr),
    Label(String),
    Break,
    Goto(String),
    Do(Block),
    While(Expr, Block),
    Repeat(Block, Expr),
    If(Vec<(Expr, Block)>, Option<Block>),
    NumFor(String, Expr, Expr, Option<Expr>, Block),
    GenFor(Vec<String>, Vec<Expr>, Block),
    Function(Vec<String>, Option<String>, Box<FuncBody>),
    LocalFunction(String, Box<FuncBody>),
    /// names with optional attrib; `prefix_attrib` is the 5.5 `local <const> a, b` form
    Local(Vec<(String, Option<&'static str>)>, Option<&'static str>, Vec<Expr>),
    Return(Vec<Expr>),
    /// 5.5: `global [attrib] names [= exprs]`
    Global(Vec<String>, Option<&'static str>, Vec<Expr>),
    /// 5.5: `global [attrib] *`
    GlobalAll(Option<&'static str>),
    /// 5.5: `global function name body`
    GlobalFunction(String, Box<FuncBody>),
}

#[derive(Clone, Debug)]
pub struct Program {
    pub ver: Ver,
    pub block: Block,
    pub prods: BTreeMap<&'static str, u32>,
}

// ------------------------------------------------------------------------------------------
// generator
// ------------------------------------------------------------------------------------------

pub struct GenOpts {
    /// approximate number of statements
    pub size: usize,
    /// attach comments / doc comments (formatter checks) — never affects validity
    pub comments: bool,
    /// doc-annotation heavy
    pub docs: bool,
}

struct G<'a> {
    rng: &'a mut Rng,
    ver: Ver,
    next_id: u32,
    next_label: u32,
    budget: i64,
    prods: BTreeMap<&'static str, u32>,
    opts: &'a GenOpts,
}

#[derive(Clone, Copy)]
struct Cx {
    vararg: bool,
    in_loop: bool,
    depth: u32,
    /// inside a 5.5 `global` scope: only declared names may be used
    strict: bool,
}

const GLOBALS: &[&str] = &["print", "x", "y", "t", "foo", "bar", "obj", "cfg", "math", "string", "self", "M", "tostring", "pairs", "ipairs", "select"];
const LOCALS: &[&str] = &["a", "b", "c", "v", "n", "s", "acc", "res", "tmp", "_", "item", "cb"];
const LOOPV: &[&str] = &["i", "j", "k", "idx", "key", "val"];
const FIELDS: &[&str] = &["name", "id", "x", "y", "next", "value", "len", "new", "__index", "data"];
const STRICT_NAMES: &[&str] = &["gx", "gy", "gz"];

const DEC_NUMS: &[&str] = &["0", "1", "2", "3", "7", "10", "42", "255", "1000", "65536", "3.14", "0.5", "3.", ".5", "1e10", "1E3", "2e-3", "5E+2", "1.5e3", ".5e1", "9007199254740993", "9223372036854775807", "9223372036854775808", "007", "0.0"];
const HEX_INTS: &[&str] = &["0x0", "0xff", "0XFF", "0xA", "0x7fffffff", "0xdeadBEEF", "0x10"];
const HEX_FLOATS: &[&str] = &["0x.1p4", "0xA.8p-1", "0x1p4", "0X1P+2", "0x.8", "0xA.", "0x1.8p1", "0xa.bp0"];

impl<'a> G<'a> {
    fn p(&mut self, name: &'static str) {
        *self.prods.entry(name).or_insert(0) += 1;
    }
    fn id(&mut self) -> u32 {
        self.next_id += 1;
        self.next_id
    }

    fn num(&mut self) -> Expr {
        let r = self.rng.below(100);
        if r < 60 {
            self.p("num:dec");
            Expr::Num(self.rng.pick(DEC_NUMS).to_string())
        } else if r < 82 {
            self.p("num:hex-int");
            Expr::Num(self.rng.pick(HEX_INTS).to_string())
        } else if self.ver >= Ver::L52 {
            self.p("num:hex-float");
            Expr::Num(self.rng.pick(HEX_FLOATS).to_string())
        } else {
            self.p("num:dec");
            Expr::Num(format!("{}", self.rng.below(100000)))
        }
    }

    fn short_string(&mut self) -> String {
        let q = if self.rng.bool() { '"' } else { '\'' };
        let mut s = String::new();
        s.push(q);
        let n = self.rng.range(0, 6);
        for _ in 0..n {
            match self.rng.below(28) {
                0..=9 => {
                    const W: &[&str] = &["a", "hello", " ", "x y", "%d", "key", "/", "-", "--", "[[", "]]", "=", "#", "0", "é", "名", "@", "{}", "()", "--[["];
                    s.push_str(self.rng.pick(W));
                }
                10 => s.push_str("\\n"),
                11 => s.push_str("\\t"),
                12 => s.push_str("\\\\"),
                13 => s.push_str("\\\""),
                14 => s.push_str("\\'"),
                15 => s.push_str(self.rng.pick(&["\\a", "\\b", "\\f", "\\r", "\\v"])),
                // a decimal escape with fewer than three digits must not be followed by a digit (`\65` + `0` = `\650`)
                16 => s.push_str(self.rng.pick(&["\\0x", "\\65-", "\\065", "\\255", "\\10 ", "\\9z", "\\0650", "\\000"])),
                17 => {
                    // the other quote, unescaped
                    s.push(if q == '"' { '\'' } else { '"' });
                }
                18 => {
                    self.p("str:escaped-newline");
                    s.push_str("\\\n");
                }
                19 | 20 => {
                    if self.ver >= Ver::L52 {
                        self.p("str:\\x");
                        s.push_str(self.rng.pick(&["\\x41", "\\x00", "\\xff", "\\xFf", "\\x7E"]));
                    }
                }
                21 | 22 => {
                    if self.ver >= Ver::L52 {
                        self.p("str:\\z");
                        s.push_str(self.rng.pick(&["\\z  ", "\\z\n   ", "\\z", "\\z \t"]));
                    }
                }
                23 | 24 => {
                    if self.ver >= Ver::L53 {
                        self.p("str:\\u");
                        s.push_str(self.rng.pick(&["\\u{41}", "\\u{0}", "\\u{10FFFF}", "\\u{1F600}", "\\u{00e9}", "\\u{7FF}"]));
                    }
                }
                25 => {
                    if self.ver >= Ver::L54 {
                        self.p("str:\\u-large");
                        s.push_str(self.rng.pick(&["\\u{7FFFFFFF}", "\\u{110000}", "\\u{200000}"]));
                    }
                }
                _ => s.push_str("\\\\n"),
            }
        }
        s.push(q);
        self.p("str:short");
        s
    }

    fn long_bracket_body(&mut self, level: usize) -> String {
        // content must not contain the closing bracket of this level, and (5.1) no "[[" at level 0
        const W: &[&str] = &["text", " ", "\n", "line two", "]", "=", "--", "\"q\"", "'", "\\n", "  indented", "\t", "é", "x = 1", "]=", "a]b"];
        let n = self.rng.range(0, 5);
        let mut s = String::new();
        for _ in 0..n {
            s.push_str(self.rng.pick(W));
        }
        let close = format!("]{}]", "=".repeat(level));
        while s.contains(&close) {
            s = s.replace(&close, "] ]");
        }
        // body + closer must not contain an EARLIER occurrence of the closer (`]=` + `]=]`); apart from
        // that a body may well end in `]` or `=` (`[=[a]]=]` is a valid level-1 string)
        while format!("{s}{close}").find(&close) != Some(s.len()) {
            s.push(' ');
        }
        if level == 0 {
            while s.contains("[[") {
                s = s.replace("[[", "[ [");
            }
        }
        s
    }

    fn long_string(&mut self) -> String {
        let level = match self.rng.below(10) {
            0..=5 => 0,
            6..=7 => 1,
            8 => 2,
            _ => 5,
        };
        self.p(if level == 0 { "str:long0" } else { "str:longN" });
        let eq = "=".repeat(level);
        let body = self.long_bracket_body(level);
        format!("[{eq}[{body}]{eq}]")
    }

    fn string_expr(&mut self) -> Expr {
        if self.rng.chance(1, 5) { Expr::LongStr(self.long_string()) } else { Expr::Str(self.short_string()) }
    }

    fn name_for_read(&mut self, cx: Cx) -> String {
        if cx.strict {
            return self.rng.pick(STRICT_NAMES).to_string();
        }
        match self.rng.below(10) {
            0..=4 => self.rng.pick(GLOBALS).to_string(),
            5..=7 => self.rng.pick(LOCALS).to_string(),
            _ => self.rng.pick(LOOPV).to_string(),
        }
    }

    fn name_for_write(&mut self, cx: Cx) -> String {
        if cx.strict {
            return self.rng.pick(&STRICT_NAMES[..2]).to_string();
        }
        if self.rng.bool() { self.rng.pick(GLOBALS).to_string() } else { self.rng.pick(LOCALS).to_string() }
    }

    /// primaryexp { '.' Name | '[' exp ']' | ':' Name args | args }
    fn prefix_exp(&mut self, cx: Cx, d: u32) -> Expr {
        let mut e = if d > 0 && self.rng.chance(1, 6) {
            self.p("exp:paren");
            Expr::Paren(Box::new(self.expr(cx, d - 1)))
        } else {
            self.p("exp:name");
            Expr::Name(self.name_for_read(cx))
        };
        let n = if d == 0 { self.rng.below(2) } else { self.rng.below(4) };
        for _ in 0..n {
            e = match self.rng.below(10) {
                0..=3 => {
                    self.p("exp:field");
                    Expr::Field(Box::new(e), self.rng.pick(FIELDS).to_string())
                }
                4..=5 => {
                    self.p("exp:index");
                    Expr::Index(Box::new(e), Box::new(self.expr(cx, d.saturating_sub(1))))
                }
                6..=7 => {
                    let a = self.args(cx, d.saturating_sub(1));
                    self.p("exp:call");
                    Expr::Call(Box::new(e), a)
                }
                _ => {
                    let a = self.args(cx, d.saturating_sub(1));
                    self.p("exp:method");
                    Expr::Method(Box::new(e), self.rng.pick(FIELDS).to_string(), a)
                }
            };
        }
        e
    }

    fn args(&mut self, cx: Cx, d: u32) -> Args {
        match self.rng.below(10) {
            0 => {
                self.p("args:string");
                Args::Str(Box::new(self.string_expr()))
            }
            1 => {
                self.p("args:table");
                Args::Table(Box::new(self.table(cx, d)))
            }
            _ => {
                let n = self.rng.below(4);
                self.p("args:paren");
                Args::Paren((0..n).map(|_| self.expr(cx, d)).collect())
            }
        }
    }

    fn table(&mut self, cx: Cx, d: u32) -> Expr {
        let n = if d == 0 { self.rng.below(3) } else { self.rng.below(6) };
        let mut fields = Vec::new();
        let mut seps = Vec::new();
        for _ in 0..n {
            let f = match self.rng.below(10) {
                0..=4 => {
                    self.p("field:pos");
                    TField::Pos(self.expr(cx, d.saturating_sub(1)))
                }
                5..=7 => {
                    self.p("field:named");
                    TField::Named(self.rng.pick(FIELDS).to_string(), self.expr(cx, d.saturating_sub(1)))
                }
                _ => {
                    self.p("field:keyed");
                    TField::Keyed(self.expr(cx, d.saturating_sub(1)), self.expr(cx, d.saturating_sub(1)))
                }
            };
            fields.push(f);
        }
        for i in 0..n {
            let last = i + 1 == n;
            if last {
                match self.rng.below(6) {
                    0 => {
                        self.p("table:trailing-comma");
                        seps.push(",")
                    }
                    1 => {
                        self.p("table:trailing-semi");
                        seps.push(";")
                    }
                    _ => seps.push(""),
                }
            } else if self.rng.chance(1, 6) {
                self.p("table:semi-sep");
                seps.push(";")
            } else {
                seps.push(",")
            }
        }
        self.p("exp:table");
        Expr::Table(fields, seps)
    }

    fn func_body(&mut self, cx: Cx, d: u32, method: bool) -> FuncBody {
        let _ = method;
        let np = self.rng.below(4);
        let mut params = Vec::new();
        for _ in 0..np {
            let p = self.rng.pick(LOCALS).to_string();
            if !params.contains(&p) {
                params.push(p);
            }
        }
        let vararg = if self.rng.chance(1, 3) {
            if self.ver >= Ver::L55 && self.rng.chance(1, 3) {
                self.p("func:named-vararg");
                Some(Some("rest".to_string()))
            } else {
                self.p("func:vararg");
                Some(None)
            }
        } else {
            None
        };
        let inner = Cx { vararg: vararg.is_some(), in_loop: false, depth: cx.depth + 1, strict: cx.strict };
        let n = self.rng.below(4);
        let body = self.block(inner, n, d);
        FuncBody { params, vararg, body }
    }

    const BIN_51: &'static [&'static str] = &["+", "-", "*", "/", "%", "^", "..", "==", "~=", "<", "<=", ">", ">=", "and", "or"];
    const BIN_53: &'static [&'static str] = &["//", "&", "|", "~", "<<", ">>"];

    pub fn expr(&mut self, cx: Cx, d: u32) -> Expr {
        if self.budget <= 0 || d == 0 {
            return self.simple_expr(cx);
        }
        self.budget -= 1;
        match self.rng.below(100) {
            0..=29 => self.simple_expr(cx),
            30..=54 => {
                let op = if self.ver >= Ver::L53 && self.rng.chance(1, 4) {
                    let o = self.rng.pick(Self::BIN_53);
                    self.p(if o == "//" { "op:idiv" } else { "op:bitwise" });
                    o
                } else {
                    let o = self.rng.pick(Self::BIN_51);
                    self.p(match o {
                        ".." => "op:concat",
                        "^" => "op:pow",
                        "and" | "or" => "op:logic",
                        "==" | "~=" | "<" | "<=" | ">" | ">=" => "op:cmp",
                        _ => "op:arith",
                    });
                    o
                };
                let l = self.expr(cx, d - 1);
                let r = self.expr(cx, d - 1);
                Expr::Bin(op, Box::new(l), Box::new(r))
            }
            55..=64 => {
                let op = if self.ver >= Ver::L53 && self.rng.chance(1, 5) {
                    self.p("op:unary-bnot");
                    "~"
                } else {
                    self.p("op:unary");
                    self.rng.pick(&["-", "not", "#"])
                };
                Expr::Un(op, Box::new(self.expr(cx, d - 1)))
            }
            65..=84 => self.prefix_exp(cx, d),
            85..=91 => self.table(cx, d),
            92..=96 => {
                self.p("exp:function");
                Expr::Func(Box::new(self.func_body(cx, d - 1, false)))
            }
            _ => {
                self.p("exp:paren");
                Expr::Paren(Box::new(self.expr(cx, d - 1)))
            }
        }
    }

    fn simple_expr(&mut self, cx: Cx) -> Expr {
        match self.rng.below(20) {
            0 => {
                self.p("exp:nil");
                Expr::Nil
            }
            1 => {
                self.p("exp:true");
                Expr::True
            }
            2 => {
                self.p("exp:false");
                Expr::False
            }
            3 => {
                if cx.vararg {
                    self.p("exp:vararg");
                    Expr::Vararg
                } else {
                    Expr::Nil
                }
            }
            4..=8 => self.num(),
            9..=12 => self.string_expr(),
            _ => {
                self.p("exp:name");
                Expr::Name(self.name_for_read(cx))
            }
        }
    }

    fn assign_target(&mut self, cx: Cx, d: u32) -> Expr {
        if self.rng.chance(3, 5) {
            Expr::Name(self.name_for_write(cx))
        } else {
            let base = self.prefix_exp(cx, d);
            if self.rng.bool() {
                Expr::Field(Box::new(base), self.rng.pick(FIELDS).to_string())
            } else {
                Expr::Index(Box::new(base), Box::new(self.expr(cx, d)))
            }
        }
    }

    fn call_expr(&mut self, cx: Cx, d: u32) -> Expr {
        let base = self.prefix_exp(cx, d);
        let a = self.args(cx, d);
        if self.rng.chance(1, 4) { Expr::Method(Box::new(base), self.rng.pick(FIELDS).to_string(), a) } else { Expr::Call(Box::new(base), a) }
    }

    fn comment_line(&mut self) -> String {
        const C: &[&str] = &[
            "-- plain comment",
            "--tight",
            "--  two spaces",
            "-- TODO: fix   this   later",
            "--[[ block ]]",
            "--[==[ level 2 ]==]",
            "--[[ multi\n     line\n]]",
            "---",
            "--- doc description",
            "---no space",
            "----------------",
            "---- four dashes",
            "-- trailing space   ",
            "--- ```lua\n--- local x = 1\n---   indented()\n--- ```",
            "--- | col1 | col2 |",
            "--- - item\n---   continued",
            "--é non-ascii",
            "-- a = b -- c",
            "--region R\n--endregion",
        ];
        self.rng.pick(C).to_string()
    }

    fn attach_comments(&mut self, s: &mut Stat, doc_target: bool) {
        if !self.opts.comments {
            return;
        }
        if self.rng.chance(1, 6) {
            s.lead.push(self.comment_line());
        }
        if self.opts.docs && doc_target && self.rng.chance(2, 3) {
            let mut lines = gen_doc_block(self.rng);
            s.lead.append(&mut lines);
        } else if self.opts.docs && self.rng.chance(1, 8) {
            let mut lines = gen_doc_block(self.rng);
            s.lead.append(&mut lines);
        }
        if self.rng.chance(1, 8) {
            const T: &[&str] = &["-- trailing", "--t", "--- doc trailing", "--[[ inline block ]]", "---@type integer", "-- x   y"];
            s.trail = Some(self.rng.pick(T).to_string());
        }
    }

    fn stat(&mut self, cx: Cx, d: u32, last: bool) -> Stat {
        self.budget -= 1;
        let id = self.id();
        let mut doc_target = false;
        let r = self.rng.below(100);
        let deep = d > 0 && cx.depth < 5 && self.budget > 0;
        let kind = match r {
            0..=17 => {
                let n = self.rng.range(1, 3);
                let m = self.rng.range(1, 3);
                self.p(if n > 1 { "stat:multi-assign" } else { "stat:assign" });
                SK::Assign((0..n).map(|_| self.assign_target(cx, d.min(1))).collect(), (0..m).map(|_| self.expr(cx, d.min(3))).collect())
            }
            18..=29 => {
                self.p("stat:call");
                SK::Call(self.call_expr(cx, d.min(2)))
            }
            30..=44 => {
                doc_target = true;
                let n = self.rng.range(1, 3);
                let mut names: Vec<(String, Option<&'static str>)> = Vec::new();
                let mut close_used = false;
                let attribs = self.ver >= Ver::L54 && self.rng.chance(1, 4) && !cx.strict;
                for k in 0..n {
                    if attribs {
                        let a = if !close_used && self.rng.chance(1, 4) {
                            close_used = true;
                            Some("close")
                        } else if self.rng.chance(2, 3) {
                            Some("const")
                        } else {
                            None
                        };
                        // attrib'ed names come from a pool that is never assigned
                        names.push((format!("K{}", k + 1), a));
                    } else {
                        names.push((self.rng.pick(LOCALS).to_string(), None));
                    }
                }
                let m = if attribs { n } else { self.rng.below(n + 2) };
                let prefix = if attribs && self.ver >= Ver::L55 && self.rng.chance(1, 4) {
                    self.p("stat:local-prefix-attrib");
                    // a prefix <close> would apply to every name: only legal for a single variable
                    Some("const")
                } else {
                    None
                };
                if prefix.is_some() {
                    // `local <const> a <close>` would mix: keep per-name attribs off
                    for nm in names.iter_mut() {
                        nm.1 = None;
                    }
                }
                if attribs {
                    self.p("stat:local-attrib");
                }
                self.p("stat:local");
                let exprs: Vec<Expr> = (0..m)
                    .map(|k| {
                        // a <close> variable needs a value that is nil/false at run time; compile time does not care,
                        // but keep it tidy
                        if attribs && names.get(k).map(|x| x.1 == Some("close")).unwrap_or(false) { Expr::Nil } else { self.expr(cx, d.min(3)) }
                    })
                    .collect();
                SK::Local(names, prefix, exprs)
            }
            45..=52 if deep => {
                self.p("stat:if");
                let nb = self.rng.range(1, 3);
                let mut arms = Vec::new();
                for _ in 0..nb {
                    let c = self.expr(cx, 2);
                    let n = self.rng.below(3);
                    arms.push((c, self.block(Cx { depth: cx.depth + 1, ..cx }, n, d - 1)));
                }
                if nb > 1 {
                    self.p("stat:elseif");
                }
                let els = if self.rng.bool() {
                    self.p("stat:else");
                    let n = self.rng.below(3);
                    Some(self.block(Cx { depth: cx.depth + 1, ..cx }, n, d - 1))
                } else {
                    None
                };
                SK::If(arms, els)
            }
            53..=57 if deep => {
                self.p("stat:while");
                let c = self.expr(cx, 2);
                let n = self.rng.below(4);
                SK::While(c, self.loop_block(cx, n, d - 1))
            }
            58..=61 if deep => {
                self.p("stat:repeat");
                let n = self.rng.below(3);
                // no goto-continue label directly inside repeat (until sees body locals)
                let b = self.block(Cx { in_loop: true, depth: cx.depth + 1, ..cx }, n, d - 1);
                SK::Repeat(b, self.expr(cx, 2))
            }
            62..=66 if deep => {
                self.p("stat:numfor");
                let v = self.rng.pick(LOOPV).to_string();
                let e1 = self.expr(cx, 1);
                let e2 = self.expr(cx, 1);
                let e3 = if self.rng.chance(1, 3) { Some(self.expr(cx, 1)) } else { None };
                let n = self.rng.below(4);
                SK::NumFor(v, e1, e2, e3, self.loop_block(cx, n, d - 1))
            }
            67..=71 if deep => {
                self.p("stat:genfor");
                let nv = self.rng.range(1, 3);
                let mut vs: Vec<String> = Vec::new();
                for _ in 0..nv {
                    let v = self.rng.pick(LOOPV).to_string();
                    if !vs.contains(&v) {
                        vs.push(v);
                    }
                }
                let ne = self.rng.range(1, 2);
                let es = (0..ne).map(|_| self.expr(cx, 2)).collect();
                let n = self.rng.below(4);
                SK::GenFor(vs, es, self.loop_block(cx, n, d - 1))
            }
            72..=75 if deep => {
                self.p("stat:do");
                let n = self.rng.below(4);
                SK::Do(self.block(Cx { depth: cx.depth + 1, ..cx }, n, d - 1))
            }
            76..=82 if deep && !cx.strict => {
                doc_target = true;
                let nseg = self.rng.range(1, 3);
                let mut path = vec![self.rng.pick(GLOBALS).to_string()];
                for _ in 1..nseg {
                    path.push(self.rng.pick(FIELDS).to_string());
                }
                let method = if self.rng.chance(1, 3) {
                    self.p("stat:function-method");
                    Some(self.rng.pick(FIELDS).to_string())
                } else {
                    None
                };
                self.p("stat:function");
                SK::Function(path, method, Box::new(self.func_body(cx, d - 1, true)))
            }
            83..=87 if deep => {
                doc_target = true;
                self.p("stat:local-function");
                SK::LocalFunction(self.rng.pick(LOCALS).to_string(), Box::new(self.func_body(cx, d - 1, false)))
            }
            88..=89 if self.ver >= Ver::L52 => {
                self.p("stat:empty");
                SK::Empty
            }
            90..=92 if deep && self.ver >= Ver::L52 => {
                // backward goto: label first, goto later in a nested position of the same block
                self.p("stat:goto-backward");
                self.p("stat:label");
                self.next_label += 1;
                let l = format!("L{}", self.next_label);
                let mut b = Block::default();
                b.stats.push(Stat { id: 0, kind: SK::Label(l.clone()), lead: vec![], trail: None, semi: false });
                let n = self.rng.below(3);
                let mut inner = self.block(Cx { depth: cx.depth + 1, ..cx }, n, d - 1);
                // the inner block must not end with return/break before our goto: strip a final laststat
                if matches!(inner.stats.last().map(|s| &s.kind), Some(SK::Return(_)) | Some(SK::Break) | Some(SK::Goto(_))) {
                    inner.stats.pop();
                }
                b.stats.append(&mut inner.stats);
                let c = self.expr(cx, 1);
                let mut gb = Block::default();
                gb.stats.push(Stat { id: 0, kind: SK::Goto(l), lead: vec![], trail: None, semi: false });
                b.stats.push(Stat { id: 0, kind: SK::If(vec![(c, gb)], None), lead: vec![], trail: None, semi: false });
                SK::Do(b)
            }
            93..=94 if deep && self.ver >= Ver::L55 && !cx.strict && cx.depth == 0 => self.global_block(cx),
            95..=99 if last => {
                if cx.in_loop && self.rng.bool() {
                    self.p("stat:break");
                    return Stat { id: 0, kind: SK::Break, lead: vec![], trail: None, semi: self.rng.chance(1, 5) };
                }
                self.p("stat:return");
                let n = self.rng.below(3);
                let es = (0..n).map(|_| self.expr(cx, 2)).collect();
                return Stat { id: 0, kind: SK::Return(es), lead: vec![], trail: None, semi: self.rng.chance(1, 5) };
            }
            _ => {
                // 5.2+: break may appear in the middle of a block
                if cx.in_loop && self.ver >= Ver::L52 && self.rng.chance(1, 6) {
                    self.p("stat:break-mid");
                    SK::Break
                } else {
                    self.p("stat:call");
                    SK::Call(self.call_expr(cx, d.min(2)))
                }
            }
        };
        let not_removable = matches!(kind, SK::Break);
        let mut s = Stat { id: if not_removable { 0 } else { id }, kind, lead: vec![], trail: None, semi: false };
        // `;` after a statement: always allowed (5.1: `stat [';']`)
        if self.rng.chance(1, 7) {
            self.p("stat:semicolon");
            s.semi = true;
        }
        if matches!(s.kind, SK::Empty) {
            s.semi = false;
        }
        self.attach_comments(&mut s, doc_target);
        s
    }

    fn global_block(&mut self, cx: Cx) -> SK {
        // do global gx, gy; global <const> gz = 1; gx = …; global function gf() … end end
        self.p("stat:global");
        let scx = Cx { strict: true, depth: cx.depth + 1, ..cx };
        let mut b = Block::default();
        let mk = |kind: SK, id: u32| Stat { id, kind, lead: vec![], trail: None, semi: false };
        b.stats.push(mk(SK::Global(vec!["gx".into(), "gy".into()], None, vec![]), 0));
        let init = if self.rng.bool() {
            self.p("stat:global-init");
            vec![self.num()]
        } else {
            vec![]
        };
        let attrib = if !init.is_empty() && self.rng.bool() {
            self.p("stat:global-attrib");
            Some("const")
        } else {
            None
        };
        b.stats.push(mk(SK::Global(vec!["gz".into()], attrib, init), 0));
        let n = self.rng.range(1, 3);
        for _ in 0..n {
            let id = self.id();
            let e = self.expr(scx, 2);
            b.stats.push(mk(SK::Assign(vec![Expr::Name(self.rng.pick(&STRICT_NAMES[..2]).to_string())], vec![e]), id));
        }
        if self.rng.bool() {
            self.p("stat:global-function");
            let id = self.id();
            let body = FuncBody { params: vec![], vararg: None, body: Block { stats: vec![mk(SK::Return(vec![Expr::Name("gx".into())]), 0)] } };
            b.stats.push(mk(SK::GlobalFunction("gf".into(), Box::new(body)), id));
        }
        if self.rng.chance(1, 3) {
            self.p("stat:global-all");
            b.stats.push(mk(SK::GlobalAll(None), 0));
        }
        SK::Do(b)
    }

    /// loop body, possibly with the `goto continue` pattern (label as last statement of the body)
    fn loop_block(&mut self, cx: Cx, n: usize, d: u32) -> Block {
        let lcx = Cx { in_loop: true, depth: cx.depth + 1, ..cx };
        if self.ver >= Ver::L52 && self.rng.chance(1, 4) {
            self.p("stat:goto-forward");
            self.p("stat:label");
            self.next_label += 1;
            let l = format!("continue{}", self.next_label);
            let mut b = self.block(lcx, n, d);
            if matches!(b.stats.last().map(|s| &s.kind), Some(SK::Return(_)) | Some(SK::Break) | Some(SK::Goto(_))) {
                b.stats.pop();
            }
            // no local declared at this level may be in scope at the label… a label at the very end of the
            // block is fine in every version ("void statement" rule), so locals are allowed.
            let c = self.expr(cx, 1);
            let mut gb = Block::default();
            gb.stats.push(Stat { id: 0, kind: SK::Goto(l.clone()), lead: vec![], trail: None, semi: false });
            let pos = self.rng.below(b.stats.len() + 1);
            b.stats.insert(pos, Stat { id: 0, kind: SK::If(vec![(c, gb)], None), lead: vec![], trail: None, semi: false });
            b.stats.push(Stat { id: 0, kind: SK::Label(l), lead: vec![], trail: None, semi: false });
            b
        } else {
            self.block(lcx, n, d)
        }
    }

    fn block(&mut self, cx: Cx, n: usize, d: u32) -> Block {
        let mut b = Block::default();
        for i in 0..n {
            let last = i + 1 == n;
            let s = self.stat(cx, d, last);
            b.stats.push(s);
        }
        b
    }
}

pub fn gen_program(rng: &mut Rng, ver: Ver, opts: &GenOpts) -> Program {
    let mut g = G { rng, ver, next_id: 0, next_label: 0, budget: (opts.size as i64) * 6, prods: BTreeMap::new(), opts };
    let cx = Cx { vararg: true, in_loop: false, depth: 0, strict: false };
    let mut block = Block::default();
    let mut guard = 0;
    while (block.stats.len() < opts.size && g.budget > 0) || block.stats.is_empty() {
        guard += 1;
        if guard > 10_000 {
            break;
        }
        let s = g.stat(cx, 3, false);
        block.stats.push(s);
    }
    if g.rng.chance(1, 3) {
        let n = g.rng.below(3);
        let es = (0..n).map(|_| g.expr(cx, 2)).collect();
        g.p("stat:return");
        block.stats.push(Stat { id: 0, kind: SK::Return(es), lead: vec![], trail: None, semi: false });
    }
    let prods = g.prods;
    Program { ver, block, prods }
}

// ------------------------------------------------------------------------------------------
// doc annotation generator (for formatter checks)
// ------------------------------------------------------------------------------------------

fn doc_type(rng: &mut Rng, d: u32) -> String {
    const BASE: &[&str] = &["string", "integer", "number", "boolean", "any", "nil", "table", "A", "B.C", "T", "MyClass", "\"lit\"", "'a'", "1", "true"];
    if d == 0 {
        return rng.pick(BASE).to_string();
    }
    match rng.below(20) {
        0..=5 => rng.pick(BASE).to_string(),
        6 => format!("{}[]", doc_type(rng, d - 1)),
        7 => format!("{}?", rng.pick(BASE)),
        8 => {
            let sp = rng.pick(&["|", " | ", "| ", " |"]);
            format!("{}{sp}{}", doc_type(rng, d - 1), doc_type(rng, d - 1))
        }
        9 => format!("table<{}, {}>", doc_type(rng, d - 1), doc_type(rng, d - 1)),
        10 => {
            let ret = if rng.bool() { format!(": {}", doc_type(rng, d - 1)) } else { String::new() };
            match rng.below(4) {
                0 => format!("fun(){ret}"),
                1 => format!("fun(a: {}){ret}", doc_type(rng, d - 1)),
                2 => format!("fun(a: {}, ...: any){ret}", doc_type(rng, d - 1)),
                _ => format!("fun(a?: {}, b: {}){ret}", doc_type(rng, d - 1), doc_type(rng, d - 1)),
            }
        }
        11 => format!("(fun(...): {}) | {}", doc_type(rng, d - 1), rng.pick(BASE)),
        12 => format!("({})[]", doc_type(rng, d - 1)),
        13 => format!("{{ a: {}, b?: {} }}", doc_type(rng, d - 1), doc_type(rng, d - 1)),
        14 => format!("[{}, {}]", doc_type(rng, d - 1), doc_type(rng, d - 1)),
        15 => format!("A<{}>", doc_type(rng, d - 1)),
        16 => format!("({})", doc_type(rng, d - 1)),
        17 => format!("{{ [string]: {} }}", doc_type(rng, d - 1)),
        18 => format!("{} & {}", rng.pick(BASE), rng.pick(BASE)),
        _ => format!("{}...", rng.pick(BASE)),
    }
}

/// A block of doc-comment lines (each a full `---…` line).
pub fn gen_doc_block(rng: &mut Rng) -> Vec<String> {
    let mut out = Vec::new();
    let at = |rng: &mut Rng| rng.pick(&["---@", "---@", "---@", "--- @"]).to_string();
    let desc = |rng: &mut Rng| -> String {
        match rng.below(6) {
            0 => " some description".into(),
            1 => " # hash description".into(),
            2 => " @ at description".into(),
            3 => "  two   spaces inside".into(),
            _ => String::new(),
        }
    };
    let n = rng.range(1, 5);
    if rng.chance(1, 3) {
        out.push(rng.pick(&["--- Summary line.", "---Summary without space", "--- Multi-line", "---   indented text", "--- ```lua", "--- * bullet"]).to_string());
        if out[0] == "--- ```lua" {
            out.push("---   local  v  =  1".into());
            out.push("--- ```".into());
        }
    }
    let kind = rng.below(10);
    for i in 0..n {
        let p = at(rng);
        let line = match kind {
            0..=2 => {
                // function-like: params + returns
                if i + 1 < n || n == 1 {
                    let name = rng.pick(&["a", "b", "opts", "...", "cb", "self"]);
                    let q = if name != "..." && rng.chance(1, 4) { "?" } else { "" };
                    format!("{p}param {name}{q} {}{}", doc_type(rng, 2), desc(rng))
                } else {
                    let t = doc_type(rng, 2);
                    match rng.below(4) {
                        0 => format!("{p}return {t}"),
                        1 => format!("{p}return {t} ok{}", desc(rng)),
                        2 => format!("{p}return {t}, {}", doc_type(rng, 1)),
                        _ => format!("{p}return {t} # why"),
                    }
                }
            }
            3..=5 => {
                // class + fields
                if i == 0 {
                    match rng.below(6) {
                        0 => format!("{p}class MyClass"),
                        1 => format!("{p}class MyClass: Base"),
                        2 => format!("{p}class MyClass : Base, Other"),
                        3 => format!("{p}class (partial) MyClass"),
                        4 => format!("{p}class MyClass<T>: Base<T>"),
                        _ => format!("{p}class (exact) MyClass{}", desc(rng)),
                    }
                } else {
                    let vis = rng.pick(&["", "", "private ", "public ", "protected "]);
                    let key = rng.pick(&["name", "id?", "[string]", "[1]", "[\"quoted key\"]", "['s']", "cb", "x"]);
                    format!("{p}field {vis}{key} {}{}", doc_type(rng, 2), desc(rng))
                }
            }
            6 => {
                if i == 0 {
                    format!("{p}alias MyAlias")
                } else {
                    let lit = rng.pick(&["'a'", "\"b\"", "1", "'c d'", "string"]);
                    let pre = rng.pick(&["---| ", "---|", "--- | ", "---|+ ", "---|> "]);
                    format!("{pre}{lit}{}", if rng.bool() { " # the description" } else { "" })
                }
            }
            7 => match rng.below(8) {
                0 => format!("{p}type {}", doc_type(rng, 3)),
                1 => format!("{p}generic T, K: string"),
                2 => format!("{p}overload fun(a: string): integer"),
                3 => format!("{p}alias Id {}", doc_type(rng, 2)),
                4 => format!("{p}enum MyEnum"),
                5 => format!("{p}generic T"),
                6 => format!("{p}type {} desc after type", doc_type(rng, 1)),
                _ => format!("{p}cast a {}", doc_type(rng, 1)),
            },
            _ => rng
                .pick(&[
                    "---@deprecated use other",
                    "---@async",
                    "---@nodiscard",
                    "---@see other.thing",
                    "---@diagnostic disable-next-line: undefined-global",
                    "---@version >5.1, JIT",
                    "---@operator add(MyClass): MyClass",
                    "---@meta",
                    "---@module 'a.b'",
                    "---@private",
                    "---@source file.lua:10",
                    "---@return_cast a string",
                    "---@unknowntag whatever   text",
                    "---@as string",
                    "---@readonly",
                    "---@namespace N",
                    "---@using N",
                    "---@language lua",
                ])
                .to_string(),
        };
        out.push(line);
        if rng.chance(1, 8) {
            out.push(rng.pick(&["--- continued description line", "---", "---     deep indent", "--- @not a tag"]).to_string());
        }
    }
    out
}

// ------------------------------------------------------------------------------------------
// printing
// ------------------------------------------------------------------------------------------

#[derive(Clone, Copy, Debug, PartialEq, Eq)]
pub enum TK {
    Kw,
    Name,
    Num,
    Str,
    LongStr,
    Op,
}

#[derive(Clone, Debug, PartialEq, Eq)]
pub struct Tok {
    pub kind: TK,
    pub text: String,
}

#[derive(Clone, Debug)]
enum Piece {
    T(Tok),
    /// statement boundary (layout may put a newline here)
    Stmt,
    Indent,
    Dedent,
    /// a complete comment that must be followed by a line break if `line`
    Comment(String, bool),
    /// trailing comment: stays on the line of the previous token
    Trail(String),
}

struct Emit {
    out: Vec<Piece>,
}

impl Emit {
    fn kw(&mut self, s: &str) {
        self.out.push(Piece::T(Tok { kind: TK::Kw, text: s.into() }));
    }
    fn op(&mut self, s: &str) {
        self.out.push(Piece::T(Tok { kind: TK::Op, text: s.into() }));
    }
    fn name(&mut self, s: &str) {
        self.out.push(Piece::T(Tok { kind: TK::Name, text: s.into() }));
    }
    fn list(&mut self, es: &[Expr]) {
        for (i, e) in es.iter().enumerate() {
            if i > 0 {
                self.op(",");
            }
            self.expr(e);
        }
    }
    fn args(&mut self, a: &Args) {
        match a {
            Args::Paren(es) => {
                self.op("(");
                self.list(es);
                self.op(")");
            }
            Args::Str(e) | Args::Table(e) => self.expr(e),
        }
    }
    fn func_body(&mut self, f: &FuncBody) {
        self.op("(");
        let mut first = true;
        for p in &f.params {
            if !first {
                self.op(",");
            }
            first = false;
            self.name(p);
        }
        if let Some(v) = &f.vararg {
            if !first {
                self.op(",");
            }
            self.op("...");
            if let Some(n) = v {
                self.name(n);
            }
        }
        self.op(")");
        self.block(&f.body);
        self.kw("end");
    }
    fn expr(&mut self, e: &Expr) {
        match e {
            Expr::Nil => self.kw("nil"),
            Expr::True => self.kw("true"),
            Expr::False => self.kw("false"),
            Expr::Vararg => self.op("..."),
            Expr::Num(s) => self.out.push(Piece::T(Tok { kind: TK::Num, text: s.clone() })),
            Expr::Str(s) => self.out.push(Piece::T(Tok { kind: TK::Str, text: s.clone() })),
            Expr::LongStr(s) => self.out.push(Piece::T(Tok { kind: TK::LongStr, text: s.clone() })),
            Expr::Name(n) => self.name(n),
            Expr::Index(b, i) => {
                self.expr(b);
                self.op("[");
                self.expr(i);
                self.op("]");
            }
            Expr::Field(b, n) => {
                self.expr(b);
                self.op(".");
                self.name(n);
            }
            Expr::Call(b, a) => {
                self.expr(b);
                self.args(a);
            }
            Expr::Method(b, n, a) => {
                self.expr(b);
                self.op(":");
                self.name(n);
                self.args(a);
            }
            Expr::Func(f) => {
                self.kw("function");
                self.func_body(f);
            }
            Expr::Bin(op, l, r) => {
                self.expr(l);
                if *op == "and" || *op == "or" {
                    self.kw(op)
                } else {
                    self.op(op)
                }
                self.expr(r);
            }
            Expr::Un(op, x) => {
                if *op == "not" {
                    self.kw(op)
                } else {
                    self.op(op)
                }
                self.expr(x);
            }
            Expr::Paren(x) => {
                self.op("(");
                self.expr(x);
                self.op(")");
            }
            Expr::Table(fs, seps) => {
                self.op("{");
                for (i, f) in fs.iter().enumerate() {
                    match f {
                        TField::Pos(e) => self.expr(e),
                        TField::Named(n, e) => {
                            self.name(n);
                            self.op("=");
                            self.expr(e);
                        }
                        TField::Keyed(k, e) => {
                            self.op("[");
                            self.expr(k);
                            self.op("]");
                            self.op("=");
                            self.expr(e);
                        }
                    }
                    let s = seps.get(i).copied().unwrap_or(",");
                    let s = if s.is_empty() && i + 1 < fs.len() { "," } else { s };
                    if !s.is_empty() {
                        self.op(s);
                    }
                }
                self.op("}");
            }
        }
    }
    fn attrib(&mut self, a: &str) {
        self.op("<");
        self.name(a);
        self.op(">");
    }
    fn block(&mut self, b: &Block) {
        self.out.push(Piece::Indent);
        self.stats(&b.stats);
        self.out.push(Piece::Dedent);
        self.out.push(Piece::Stmt);
    }
    /// A statement that starts with `(` would continue the previous statement (`a = b (f)()`), so the
    /// previous statement gets a `;` (valid in every version: `stat [';']`).
    fn stats(&mut self, stats: &[Stat]) {
        for (i, s) in stats.iter().enumerate() {
            let next_paren = stats.get(i + 1).map(|n| starts_with_paren(&n.kind)).unwrap_or(false);
            self.stat(s, next_paren);
        }
    }
    fn stat(&mut self, s: &Stat, force_semi: bool) {
        self.out.push(Piece::Stmt);
        for c in &s.lead {
            // long comments do not need a line break after them, everything else does
            let line = !(c.starts_with("--[") && c.ends_with(']'));
            self.out.push(Piece::Comment(c.clone(), line || c.contains('\n')));
            self.out.push(Piece::Stmt);
        }
        match &s.kind {
            SK::Empty => self.op(";"),
            SK::Assign(ts, es) => {
                self.list(ts);
                self.op("=");
                self.list(es);
            }
            SK::Call(e) => self.expr(e),
            SK::Label(l) => {
                self.op("::");
                self.name(l);
                self.op("::");
            }
            SK::Break => self.kw("break"),
            SK::Goto(l) => {
                self.kw("goto");
                self.name(l);
            }
            SK::Do(b) => {
                self.kw("do");
                self.block(b);
                self.kw("end");
            }
            SK::While(c, b) => {
                self.kw("while");
                self.expr(c);
                self.kw("do");
                self.block(b);
                self.kw("end");
            }
            SK::Repeat(b, c) => {
                self.kw("repeat");
                self.block(b);
                self.kw("until");
                self.expr(c);
            }
            SK::If(arms, els) => {
                for (i, (c, b)) in arms.iter().enumerate() {
                    self.kw(if i == 0 { "if" } else { "elseif" });
                    self.expr(c);
                    self.kw("then");
                    self.block(b);
                }
                if let Some(b) = els {
                    self.kw("else");
                    self.block(b);
                }
                self.kw("end");
            }
            SK::NumFor(v, a, b, c, body) => {
                self.kw("for");
                self.name(v);
                self.op("=");
                self.expr(a);
                self.op(",");
                self.expr(b);
                if let Some(c) = c {
                    self.op(",");
                    self.expr(c);
                }
                self.kw("do");
                self.block(body);
                self.kw("end");
            }
            SK::GenFor(vs, es, body) => {
                self.kw("for");
                for (i, v) in vs.iter().enumerate() {
                    if i > 0 {
                        self.op(",");
                    }
                    self.name(v);
                }
                self.kw("in");
                self.list(es);
                self.kw("do");
                self.block(body);
                self.kw("end");
            }
            SK::Function(path, m, f) => {
                self.kw("function");
                for (i, p) in path.iter().enumerate() {
                    if i > 0 {
                        self.op(".");
                    }
                    self.name(p);
                }
                if let Some(m) = m {
                    self.op(":");
                    self.name(m);
                }
                self.func_body(f);
            }
            SK::LocalFunction(n, f) => {
                self.kw("local");
                self.kw("function");
                self.name(n);
                self.func_body(f);
            }
            SK::Local(names, prefix, es) => {
                self.kw("local");
                if let Some(a) = prefix {
                    self.attrib(a);
                }
                for (i, (n, a)) in names.iter().enumerate() {
                    if i > 0 {
                        self.op(",");
                    }
                    self.name(n);
                    if let Some(a) = a {
                        self.attrib(a);
                    }
                }
                if !es.is_empty() {
                    self.op("=");
                    self.list(es);
                }
            }
            SK::Return(es) => {
                self.kw("return");
                self.list(es);
            }
            SK::Global(names, attrib, es) => {
                self.kw("global");
                if let Some(a) = attrib {
                    self.attrib(a);
                }
                for (i, n) in names.iter().enumerate() {
                    if i > 0 {
                        self.op(",");
                    }
                    self.name(n);
                }
                if !es.is_empty() {
                    self.op("=");
                    self.list(es);
                }
            }
            SK::GlobalAll(attrib) => {
                self.kw("global");
                if let Some(a) = attrib {
                    self.attrib(a);
                }
                self.op("*");
            }
            SK::GlobalFunction(n, f) => {
                self.kw("global");
                self.kw("function");
                self.name(n);
                self.func_body(f);
            }
        }
        if s.semi || (force_semi && !matches!(s.kind, SK::Empty)) {
            self.op(";");
        }
        if let Some(t) = &s.trail {
            self.out.push(Piece::Trail(t.clone()));
        }
    }
}

/// Layout styles for the printer.
#[derive(Clone, Copy, Debug, PartialEq, Eq)]
pub enum Layout {
    /// one statement per line, indented, single spaces
    Pretty,
    /// as little whitespace as lexically possible, statements on one line
    Compact,
    /// random whitespace / newlines between tokens
    Wild,
}

pub struct Printed {
    pub text: String,
    pub tokens: Vec<Tok>,
    /// byte offset of every token in `text`
    pub offsets: Vec<usize>,
}

fn needs_space(left: &Tok, right: &Tok) -> bool {
    let (Some(l), Some(r)) = (left.text.chars().last(), right.text.chars().next()) else { return false };
    let wordy = |c: char| c.is_alphanumeric() || c == '_' || !c.is_ascii();
    if wordy(l) && wordy(r) {
        return true; // name / keyword / number adjacency
    }
    if left.kind == TK::Num && (r == '.' || wordy(r)) {
        return true; // `1 ..`, `1 .x`, and `3. then` / `0xA. do`: a numeral touching a letter is malformed
    }
    if l == '.' && (r == '.' || r.is_ascii_digit()) {
        return true; // `.. .5`, `.. ...`
    }
    // punctuation pairs that would fuse into another token (`- -`, `= =`, `< <`, `> =`, `: :`, `/ /`, `[ [`, `[ =`, `~ =`)
    const FUSE: &str = "=<>~/:-[&|";
    if FUSE.contains(l) && FUSE.contains(r) {
        return true;
    }
    false
}

impl Program {
    pub fn tokens(&self) -> Vec<Tok> {
        let mut e = Emit { out: Vec::new() };
        e.stats(&self.block.stats);
        e.out.into_iter().filter_map(|p| if let Piece::T(t) = p { Some(t) } else { None }).collect()
    }

    pub fn print(&self, rng: &mut Rng, layout: Layout) -> Printed {
        let mut e = Emit { out: Vec::new() };
        e.stats(&self.block.stats);
        let nl = "\n";
        let indent_unit = match rng.below(4) {
            0 => "\t",
            1 => "  ",
            2 => "   ",
            _ => "    ",
        };
        let mut text = String::new();
        let mut tokens = Vec::new();
        let mut offsets = Vec::new();
        let mut depth: usize = 0;
        let mut prev: Option<Tok> = None; // previous token on the current "glue" run
        let mut at_line_start = true;
        let mut need_newline = false; // a line comment was just written
        let mut pending_stmt = false;
        for piece in e.out {
            match piece {
                Piece::Indent => depth += 1,
                Piece::Dedent => depth = depth.saturating_sub(1),
                Piece::Stmt => pending_stmt = true,
                Piece::Comment(c, line) => {
                    // comments start on their own line in Pretty, anywhere otherwise
                    if !at_line_start {
                        if layout == Layout::Pretty || need_newline || rng.bool() {
                            text.push_str(nl);
                            at_line_start = true;
                        } else {
                            text.push(' ');
                        }
                    }
                    if at_line_start && layout != Layout::Compact {
                        for _ in 0..depth {
                            text.push_str(indent_unit);
                        }
                    }
                    // multi-line doc blocks: indent continuation lines too
                    let ind: String = if layout != Layout::Compact { indent_unit.repeat(depth) } else { String::new() };
                    let is_long = c.starts_with("--[");
                    let mut first = true;
                    for l in c.split('\n') {
                        if !first {
                            text.push_str(nl);
                            if !is_long {
                                text.push_str(&ind);
                            }
                        }
                        first = false;
                        text.push_str(l);
                    }
                    at_line_start = false;
                    need_newline = line;
                    prev = None;
                    pending_stmt = false;
                    if line {
                        text.push_str(nl);
                        at_line_start = true;
                        need_newline = false;
                    }
                }
                Piece::Trail(c) => {
                    text.push(' ');
                    text.push_str(&c);
                    let long = c.starts_with("--[") && c.ends_with(']');
                    if long {
                        prev = None;
                        at_line_start = false;
                    } else {
                        text.push_str(nl);
                        at_line_start = true;
                        prev = None;
                    }
                }
                Piece::T(t) => {
                    let sep: String = if at_line_start {
                        if layout != Layout::Compact { indent_unit.repeat(depth) } else { String::new() }
                    } else if pending_stmt {
                        match layout {
                            Layout::Pretty => format!("{nl}{}{}", if rng.chance(1, 10) { nl } else { "" }, indent_unit.repeat(depth)),
                            Layout::Compact => " ".into(),
                            Layout::Wild => match rng.below(6) {
                                0 => " ".into(),
                                1 => format!("{nl}{nl}{nl}"),
                                2 => format!("  {nl}\t"),
                                _ => format!("{nl}{}", indent_unit.repeat(depth)),
                            },
                        }
                    } else {
                        let must = prev.as_ref().map(|p| needs_space(p, &t)).unwrap_or(false);
                        match layout {
                            Layout::Pretty => {
                                let p = prev.as_ref().map(|p| p.text.as_str()).unwrap_or("");
                                let pk = prev.as_ref().map(|p| p.kind);
                                let no_space_before = t.kind == TK::Op && matches!(t.text.as_str(), "," | ";" | ")" | "]" | "." | ":");
                                let no_space_after = pk == Some(TK::Op) && matches!(p, "(" | "[" | "." | ":" | "#");
                                let callish = t.kind == TK::Op && (t.text == "(" || t.text == "[") && (matches!(pk, Some(TK::Name) | Some(TK::Str)) || (pk == Some(TK::Op) && (p == ")" || p == "]")));
                                if must || !(no_space_before || no_space_after || callish) { " ".into() } else { String::new() }
                            }
                            Layout::Compact => {
                                if must { " ".into() } else { String::new() }
                            }
                            Layout::Wild => match rng.below(12) {
                                0 | 1 | 2 => {
                                    if must { " ".into() } else { String::new() }
                                }
                                3 => "  ".into(),
                                4 => "\t".into(),
                                5 => format!("{nl}{}", indent_unit.repeat(depth + 1)),
                                6 => " --[[c]] ".into(),
                                7 => format!(" -- c{nl}"),
                                _ => " ".into(),
                            },
                        }
                    };
                    text.push_str(&sep);
                    offsets.push(text.len());
                    text.push_str(&t.text);
                    prev = Some(t.clone());
                    tokens.push(t);
                    at_line_start = false;
                    pending_stmt = false;
                }
            }
        }
        match rng.below(4) {
            0 => {}
            1 => text.push_str("\n\n"),
            _ => text.push('\n'),
        }
        Printed { text, tokens, offsets }
    }

    /// ids of all individually removable statements
    pub fn stmt_ids(&self) -> Vec<u32> {
        fn walk(b: &Block, out: &mut Vec<u32>) {
            for s in &b.stats {
                if s.id != 0 {
                    out.push(s.id);
                }
                for c in children(&s.kind) {
                    walk(c, out);
                }
            }
        }
        let mut v = Vec::new();
        walk(&self.block, &mut v);
        v
    }

    /// keep only the removable statements whose id is in `keep` (id 0 statements always stay)
    pub fn retain(&self, keep: &BTreeSet<u32>) -> Program {
        fn prune(b: &Block, keep: &BTreeSet<u32>) -> Block {
            let mut out = Block::default();
            for s in &b.stats {
                if s.id != 0 && !keep.contains(&s.id) {
                    continue;
                }
                let mut s2 = s.clone();
                map_children(&mut s2.kind, &mut |c| *c = prune(c, keep));
                out.stats.push(s2);
            }
            out
        }
        Program { ver: self.ver, block: prune(&self.block, keep), prods: self.prods.clone() }
    }

    pub fn stmt_count(&self) -> usize {
        fn walk(b: &Block) -> usize {
            b.stats.iter().map(|s| 1 + children(&s.kind).into_iter().map(walk).sum::<usize>()).sum()
        }
        walk(&self.block)
    }

    /// fingerprint: the multiset of productions used
    pub fn fingerprint(&self) -> u64 {
        let mut s = String::new();
        for (k, v) in &self.prods {
            s.push_str(k);
            s.push(':');
            s.push_str(&v.to_string());
            s.push(',');
        }
        crate::rng::fnv(s.as_bytes()) ^ (self.ver.index() as u64)
    }
}

fn leftmost_is_paren(e: &Expr) -> bool {
    match e {
        Expr::Paren(_) => true,
        Expr::Index(b, _) | Expr::Field(b, _) | Expr::Call(b, _) | Expr::Method(b, _, _) => leftmost_is_paren(b),
        _ => false,
    }
}

fn starts_with_paren(k: &SK) -> bool {
    match k {
        SK::Assign(ts, _) => ts.first().map(leftmost_is_paren).unwrap_or(false),
        SK::Call(e) => leftmost_is_paren(e),
        _ => false,
    }
}

fn func_children(f: &FuncBody) -> Vec<&Block> {
    vec![&f.body]
}

fn children(k: &SK) -> Vec<&Block> {
    match k {
        SK::Do(b) | SK::While(_, b) | SK::Repeat(b, _) | SK::NumFor(_, _, _, _, b) | SK::GenFor(_, _, b) => vec![b],
        SK::If(arms, els) => {
            let mut v: Vec<&Block> = arms.iter().map(|a| &a.1).collect();
            if let Some(e) = els {
                v.push(e);
            }
            v
        }
        SK::Function(_, _, f) | SK::LocalFunction(_, f) | SK::GlobalFunction(_, f) => func_children(f),
        _ => vec![],
    }
}

fn map_children(k: &mut SK, f: &mut dyn FnMut(&mut Block)) {
    match k {
        SK::Do(b) | SK::While(_, b) | SK::Repeat(b, _) | SK::NumFor(_, _, _, _, b) | SK::GenFor(_, _, b) => f(b),
        SK::If(arms, els) => {
            for a in arms.iter_mut() {
                f(&mut a.1);
            }
            if let Some(e) = els {
                f(e);
            }
        }
        SK::Function(_, _, fb) | SK::LocalFunction(_, fb) | SK::GlobalFunction(_, fb) => f(&mut fb.body),
        _ => {}
    }
}

// ------------------------------------------------------------------------------------------
// G-invalid
// ------------------------------------------------------------------------------------------

/// Mutations that make a valid token list ungrammatical in every Lua version. The argument for
/// each is a counting / adjacency invariant of the grammar (keywords are reserved, strings and
/// comments are single tokens):
///   * DeleteEnd / DeleteThen / DeleteUntil / DeleteDo: #end = #function + #if + #do, #then = #if + #elseif,
///     #until = #repeat, #do = #while + #for + (#end − #function − #if − … ) … each token count is
///     determined by the others; removing one breaks the equality.
///   * DeleteBracket: every bracket kind is balanced.
///   * DupBinOp: two adjacent binary-only operators never occur.
///   * DoubleAssign: `=` is never followed by `=`.
///   * BadNumeral: `0x`, `1e`, `3e+`, `08z` are malformed numerals in every version.
///   * UnfinishedString / UnfinishedLong / UnfinishedLongComment: lexical errors in every version.
///   * EscapeTooLarge: `\999` is rejected by every version.
///   * KeywordAsName: reserved words cannot be names.
#[derive(Clone, Copy, Debug, PartialEq, Eq)]
pub enum Mutation {
    DeleteEnd,
    DeleteThen,
    DeleteUntil,
    DeleteBracket,
    DupBinOp,
    DoubleAssign,
    BadNumeral,
    UnfinishedString,
    UnfinishedLong,
    UnfinishedLongComment,
    EscapeTooLarge,
    KeywordAsName,
}

pub const MUTATIONS: [Mutation; 12] = [
    Mutation::DeleteEnd,
    Mutation::DeleteThen,
    Mutation::DeleteUntil,
    Mutation::DeleteBracket,
    Mutation::DupBinOp,
    Mutation::DoubleAssign,
    Mutation::BadNumeral,
    Mutation::UnfinishedString,
    Mutation::UnfinishedLong,
    Mutation::UnfinishedLongComment,
    Mutation::EscapeTooLarge,
    Mutation::KeywordAsName,
];

const BIN_ONLY: &[&str] = &["+", "*", "/", "%", "^", "..", "==", "~=", "<", "<=", ">", ">=", "and", "or", "//", "&", "|", "<<", ">>"];

/// Render a token list with single spaces / newlines (always lexically safe).
pub fn join_tokens(toks: &[Tok]) -> String {
    let mut s = String::new();
    for (i, t) in toks.iter().enumerate() {
        if i > 0 {
            s.push(if i % 9 == 0 { '\n' } else { ' ' });
        }
        s.push_str(&t.text);
    }
    s.push('\n');
    s
}

/// Apply `m` to the token list; None if the program has no site for it.
pub fn mutate(rng: &mut Rng, toks: &[Tok], m: Mutation) -> Option<String> {
    let find = |pred: &dyn Fn(&Tok) -> bool| -> Vec<usize> { toks.iter().enumerate().filter(|(_, t)| pred(t)).map(|(i, _)| i).collect() };
    let mut v: Vec<Tok> = toks.to_vec();
    match m {
        Mutation::DeleteEnd | Mutation::DeleteThen | Mutation::DeleteUntil => {
            let kw = match m {
                Mutation::DeleteEnd => "end",
                Mutation::DeleteThen => "then",
                _ => "until",
            };
            let sites = find(&|t| t.kind == TK::Kw && t.text == kw);
            if sites.is_empty() {
                return None;
            }
            v.remove(sites[rng.below(sites.len())]);
            Some(join_tokens(&v))
        }
        Mutation::DeleteBracket => {
            let sites = find(&|t| t.kind == TK::Op && matches!(t.text.as_str(), "(" | ")" | "{" | "}" | "[" | "]"));
            if sites.is_empty() {
                return None;
            }
            v.remove(sites[rng.below(sites.len())]);
            Some(join_tokens(&v))
        }
        Mutation::DupBinOp => {
            // only operators in binary position: previous token ends an expression
            let sites: Vec<usize> = (1..toks.len())
                .filter(|&i| {
                    let t = &toks[i];
                    (t.kind == TK::Op || t.kind == TK::Kw) && BIN_ONLY.contains(&t.text.as_str()) && {
                        let p = &toks[i - 1];
                        matches!(p.kind, TK::Name | TK::Num | TK::Str | TK::LongStr) || (p.kind == TK::Op && matches!(p.text.as_str(), ")" | "]" | "}" | "...")) || (p.kind == TK::Kw && matches!(p.text.as_str(), "nil" | "true" | "false" | "end"))
                    }
                })
                // `<` `>` also delimit attribs: skip `<` followed by const/close and `>` after them
                .filter(|&i| !(toks[i].text == "<" && toks.get(i + 1).map(|n| n.text == "const" || n.text == "close").unwrap_or(false)) && !(toks[i].text == ">" && matches!(toks[i - 1].text.as_str(), "const" | "close")))
                .collect();
            if sites.is_empty() {
                return None;
            }
            let i = sites[rng.below(sites.len())];
            let dup = v[i].clone();
            v.insert(i, dup);
            Some(join_tokens(&v))
        }
        Mutation::DoubleAssign => {
            let sites = find(&|t| t.kind == TK::Op && t.text == "=");
            if sites.is_empty() {
                return None;
            }
            let i = sites[rng.below(sites.len())];
            v.insert(i, Tok { kind: TK::Op, text: "=".into() });
            Some(join_tokens(&v))
        }
        Mutation::BadNumeral => {
            let sites = find(&|t| t.kind == TK::Num);
            if sites.is_empty() {
                return None;
            }
            let i = sites[rng.below(sites.len())];
            v[i].text = rng.pick(&["0x", "1e", "3e+", "08z", "0xg", "1.2.3", "0x1p"]).to_string();
            Some(join_tokens(&v))
        }
        Mutation::UnfinishedString => {
            let sites = find(&|t| t.kind == TK::Str);
            if sites.is_empty() {
                return None;
            }
            let i = sites[rng.below(sites.len())];
            let q = v[i].text.chars().next().unwrap();
            // an opening quote, some text, end of line: short strings never span lines
            let mut s = join_tokens(&v[..i]);
            s.push(q);
            s.push_str("unfinished");
            s.push('\n');
            s.push_str(&join_tokens(&v[i + 1..]));
            // a later string with the same quote on the next line cannot close it: short strings end at newline
            Some(s)
        }
        Mutation::UnfinishedLong => {
            // append an unterminated long string at a place where an expression is expected: after a final `return`
            let mut s = join_tokens(&v);
            s.push_str("local __s = [==[ never closed ]] ]=]\n");
            Some(s)
        }
        Mutation::UnfinishedLongComment => {
            let mut s = join_tokens(&v);
            s.push_str("--[[ never closed ]=]\n");
            // a valid program followed by an unfinished long comment is an error in every version
            Some(s)
        }
        Mutation::EscapeTooLarge => {
            let sites = find(&|t| t.kind == TK::Str);
            if sites.is_empty() {
                return None;
            }
            let i = sites[rng.below(sites.len())];
            let q = v[i].text.chars().next().unwrap();
            v[i].text = format!("{q}a\\999b{q}");
            Some(join_tokens(&v))
        }
        Mutation::KeywordAsName => {
            // only names in `local NAME` / field positions are certainly names; any Name token works:
            // a reserved word can never stand where a Name is required
            let sites: Vec<usize> = (0..toks.len()).filter(|&i| toks[i].kind == TK::Name && i > 0 && toks[i - 1].kind == TK::Kw && toks[i - 1].text == "local").collect();
            if sites.is_empty() {
                return None;
            }
            let i = sites[rng.below(sites.len())];
            v[i].text = rng.pick(&["end", "while", "nil", "and", "function", "return"]).to_string();
            Some(join_tokens(&v))
        }
    }
}
