pub mod config;
pub mod flow;
pub mod scope;
pub mod soup;
pub mod types;
pub mod valid;
pub mod workspace;
