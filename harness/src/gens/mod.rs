pub mod soup;
