//! G-config: configuration documents over the `Emmyrc` key space.
//!
//! The key space is *harvested at run time* from `crates/emmylua_code_analysis/resources/schema.json`
//! of the tree under test (so new settings are picked up), never hard-coded. The generator keeps an AST
//! of its own — a list of [`Setting`]s (path + value) with a [spelling](spell) per setting — and renders
//! it to JSON (or to a Lua table for `.emmyrc.lua`), so that oracles can reason about what was *meant*
//! independently of how it was spelled.
//!
//! * [`KeySpace::harvest`] — leaf settings with their value kinds (bool / int / string / enum / arrays / maps …).
//! * [`valid_value`] / [`wrong_value`] / [`path_string`] — values that deserialize, values of the wrong
//!   type, hostile path strings (`~`, `~x`, `~é`, `~/`, `${workspaceFolder}`, `$VAR`, `{env:…}`, NUL …).
//! * [`spell`] + [`render`] — flat (`"a.b.c"`), nested (`{"a":{"b":{"c":…}}}`) and mixed spellings.
//! * [`hostile_doc`] — C31 documents: random settings, wrong types, colliding keys (a key that is both a
//!   value and a prefix, in both orders and depths), unknown keys, non-object roots.
//! * [`to_lua`] — the same document as a Lua table constructor.

use crate::rng::Rng;
use serde_json::{Map, Value, json};

#[derive(Clone, Debug, PartialEq)]
pub enum ValKind {
    Bool,
    Int { min: i64, max: i64 },
    Str,
    Enum(Vec<String>),
    Array(Box<ValKind>),
    /// object with free keys (`additionalProperties`)
    Map(Box<ValKind>),
    /// `workspace.library` / `packages` item: a path string or `{path, ignoreDir, ignoreGlobs}`
    PathItem,
    /// object with fixed string fields inside an array (e.g. moduleMap items)
    Record(Vec<(String, ValKind)>),
    Any,
}

#[derive(Clone, Debug)]
pub struct KeyInfo {
    /// e.g. `["workspace", "library"]`
    pub path: Vec<String>,
    pub kind: ValKind,
    pub nullable: bool,
    /// value (or its elements) goes through `pre_process_path`
    pub is_path: bool,
}

impl KeyInfo {
    pub fn dotted(&self) -> String {
        self.path.join(".")
    }
    pub fn is_array(&self) -> bool {
        matches!(self.kind, ValKind::Array(_))
    }
    pub fn is_scalar(&self) -> bool {
        matches!(self.kind, ValKind::Bool | ValKind::Int { .. } | ValKind::Str | ValKind::Enum(_))
    }
}

#[derive(Clone, Debug)]
pub struct KeySpace {
    pub keys: Vec<KeyInfo>,
    pub schema_path: String,
}

/// settings whose strings are expanded by `Emmyrc::pre_process_emmyrc`
const PATH_KEYS: &[&str] = &["workspace.workspaceRoots", "workspace.library", "workspace.packages", "workspace.ignoreDir", "resource.paths"];

impl KeySpace {
    /// Locate and read the schema of the tree under test. `None` when it cannot be found/parsed.
    pub fn harvest(repo: &str) -> Option<KeySpace> {
        let candidates = [
            format!("{repo}/crates/emmylua_code_analysis/resources/schema.json"),
            format!("{repo}/crates/emmylua_code_analysis/resources/schema/schema.json"),
            format!("{repo}/resources/schema.json"),
        ];
        for p in candidates {
            if let Ok(s) = std::fs::read_to_string(&p) {
                if let Ok(v) = serde_json::from_str::<Value>(&s) {
                    let mut keys = Vec::new();
                    walk(&v, &v, &mut Vec::new(), false, &mut keys, 0);
                    keys.retain(|k| !k.path.is_empty());
                    keys.sort_by(|a, b| a.path.cmp(&b.path));
                    if !keys.is_empty() {
                        return Some(KeySpace { keys, schema_path: p });
                    }
                }
            }
        }
        None
    }

    pub fn pick<'a>(&'a self, rng: &mut Rng) -> &'a KeyInfo {
        &self.keys[rng.below(self.keys.len())]
    }

    pub fn pick_where<'a>(&'a self, rng: &mut Rng, f: impl Fn(&KeyInfo) -> bool) -> Option<&'a KeyInfo> {
        let c: Vec<&KeyInfo> = self.keys.iter().filter(|k| f(k)).collect();
        if c.is_empty() { None } else { Some(c[rng.below(c.len())]) }
    }

    pub fn find(&self, dotted: &str) -> Option<&KeyInfo> {
        self.keys.iter().find(|k| k.dotted() == dotted)
    }
}

fn deref<'a>(root: &'a Value, mut n: &'a Value) -> &'a Value {
    for _ in 0..16 {
        match n.get("$ref").and_then(|r| r.as_str()) {
            Some(r) => {
                let name = r.rsplit('/').next().unwrap_or("");
                match root.get("$defs").or_else(|| root.get("definitions")).and_then(|d| d.get(name)) {
                    Some(t) => n = t,
                    None => return n,
                }
            }
            None => return n,
        }
    }
    n
}

fn type_names(n: &Value) -> Vec<String> {
    match n.get("type") {
        Some(Value::String(s)) => vec![s.clone()],
        Some(Value::Array(a)) => a.iter().filter_map(|x| x.as_str().map(|s| s.to_string())).collect(),
        _ => vec![],
    }
}

/// (node without the `null` alternative, nullable)
fn strip_null<'a>(root: &'a Value, n: &'a Value) -> (&'a Value, bool) {
    let n = deref(root, n);
    for key in ["anyOf", "oneOf"] {
        if let Some(alts) = n.get(key).and_then(|a| a.as_array()) {
            let non_null: Vec<&Value> = alts.iter().filter(|a| a.get("type").and_then(|t| t.as_str()) != Some("null")).collect();
            if non_null.len() == 1 && non_null.len() < alts.len() {
                return (deref(root, non_null[0]), true);
            }
        }
    }
    (n, type_names(n).iter().any(|t| t == "null"))
}

fn kind_of(root: &Value, n: &Value, depth: usize) -> ValKind {
    if depth > 6 {
        return ValKind::Any;
    }
    let (n, _) = strip_null(root, n);
    // string enums
    if let Some(e) = n.get("enum").and_then(|e| e.as_array()) {
        let vals: Vec<String> = e.iter().filter_map(|v| v.as_str().map(|s| s.to_string())).collect();
        if !vals.is_empty() {
            return ValKind::Enum(vals);
        }
    }
    for key in ["oneOf", "anyOf"] {
        if let Some(alts) = n.get(key).and_then(|a| a.as_array()) {
            let mut vals = Vec::new();
            let mut all_const = true;
            for a in alts {
                let a = deref(root, a);
                if let Some(c) = a.get("const").and_then(|c| c.as_str()) {
                    vals.push(c.to_string());
                } else if let Some(e) = a.get("enum").and_then(|e| e.as_array()) {
                    vals.extend(e.iter().filter_map(|v| v.as_str().map(|s| s.to_string())));
                } else {
                    all_const = false;
                }
            }
            if all_const && !vals.is_empty() {
                return ValKind::Enum(vals);
            }
            // string | {path: …}
            let has_str = alts.iter().any(|a| type_names(deref(root, a)).iter().any(|t| t == "string"));
            let has_path_obj = alts.iter().any(|a| deref(root, a).get("properties").and_then(|p| p.get("path")).is_some());
            if has_str && has_path_obj {
                return ValKind::PathItem;
            }
            return ValKind::Any;
        }
    }
    let tn = type_names(n);
    let t = tn.iter().find(|t| *t != "null").map(|s| s.as_str()).unwrap_or("");
    match t {
        "boolean" => ValKind::Bool,
        "integer" | "number" => {
            let min = n.get("minimum").and_then(|m| m.as_i64()).unwrap_or_else(|| if n.get("format").and_then(|f| f.as_str()).map(|f| f.starts_with('u')).unwrap_or(false) { 0 } else { -1000 });
            let max = n.get("maximum").and_then(|m| m.as_i64()).unwrap_or(100_000);
            ValKind::Int { min, max }
        }
        "string" => ValKind::Str,
        "array" => ValKind::Array(Box::new(n.get("items").map(|i| kind_of(root, i, depth + 1)).unwrap_or(ValKind::Any))),
        "object" => {
            if let Some(p) = n.get("properties").and_then(|p| p.as_object()) {
                ValKind::Record(p.iter().map(|(k, v)| (k.clone(), kind_of(root, v, depth + 1))).collect())
            } else if let Some(ap) = n.get("additionalProperties") {
                if ap.is_object() { ValKind::Map(Box::new(kind_of(root, ap, depth + 1))) } else { ValKind::Map(Box::new(ValKind::Any)) }
            } else {
                ValKind::Map(Box::new(ValKind::Any))
            }
        }
        _ => ValKind::Any,
    }
}

fn walk(root: &Value, n: &Value, path: &mut Vec<String>, nullable: bool, out: &mut Vec<KeyInfo>, depth: usize) {
    let (n, nul) = strip_null(root, n);
    let nullable = nullable || nul;
    let props = n.get("properties").and_then(|p| p.as_object());
    if let (Some(props), true) = (props, depth < 4) {
        for (k, v) in props {
            path.push(k.clone());
            walk(root, v, path, false, out, depth + 1);
            path.pop();
        }
        return;
    }
    let dotted = path.join(".");
    out.push(KeyInfo { path: path.clone(), kind: kind_of(root, n, 0), nullable, is_path: PATH_KEYS.contains(&dotted.as_str()) });
}

// ───────────────────────── values ─────────────────────────

const WORDS: &[&str] = &["a", "b", "foo", "bar", "x1", "undefined-global", "print", "require", "src", "lib", "test", "utf-8", "é", "名", "lua"];

/// Hostile path strings for every path-typed setting (C31).
pub const PATH_STRINGS: &[&str] = &[
    "~", "~x", "~é", "~/", "~/lib", "~~", "~😀", "~\u{0}", "./", "./src", ".", "..", "", " ", "/", "/abs/lib", "rel/lib", "$", "$$", "${", "${}", "${workspaceFolder}",
    "${workspaceFolder}/lib", "{workspaceFolder}", "{workspaceFolder", "workspaceFolder}", "$HOME", "$HOME/x", "$VERIF_TILDE", "$VERIF_EMPTY", "$VERIF_UNSET_VARIABLE",
    "$VERIF_TILDE$VERIF_EMPTY", "{env:HOME}", "{env:VERIF_TILDE}", "{env:VERIF_UNSET_VARIABLE}", "{env:}", "{env:", "{luarocks}", "{}", "{{}}", "{x}", "~$", "$~", "~{env:VERIF_EMPTY}",
    "{env:VERIF_TILDE}é", "a\u{0}b", "\u{0}", "é", "名/前", "C:\\lib", "\\\\server\\share", "~\\x", "file:///x", "a/./b/../c", "//double//slash", "./~", "~.",
];

/// Environment the path expansion of C31 runs under (set once per process by the property).
pub const PATH_ENV: &[(&str, &str)] = &[("VERIF_TILDE", "~"), ("VERIF_EMPTY", ""), ("VERIF_TILDE_E", "~é")];

/// building blocks of the placeholder syntaxes (`${name}`, `{name}`, `{env:NAME}`, `$NAME`, `~`)
const PATH_FRAGMENTS: &[&str] = &["{", "}", "$", "${", "env", "env:", "envé", "en", "workspaceFolder", "luarocks", ":", "~", "/", "é", "x", "HOME", "VERIF_TILDE", "VERIF_EMPTY", " ", "\\", ".", "😀"];

pub fn path_string(rng: &mut Rng) -> String {
    if rng.chance(1, 4) {
        // free composition of placeholder fragments: malformed / truncated / unknown placeholders
        let n = rng.range(1, 6);
        let mut s = String::new();
        for _ in 0..n {
            s.push_str(rng.pick(PATH_FRAGMENTS));
        }
        return s;
    }
    if rng.chance(1, 6) {
        // compose two fragments
        format!("{}{}", rng.pick(PATH_STRINGS), rng.pick(PATH_STRINGS))
    } else {
        rng.pick(PATH_STRINGS).to_string()
    }
}

fn word(rng: &mut Rng) -> String {
    rng.pick(WORDS).to_string()
}

/// A value that the serde types accept for this kind (used where a *valid* configuration is needed).
pub fn valid_value(rng: &mut Rng, kind: &ValKind) -> Value {
    match kind {
        ValKind::Bool => json!(rng.bool()),
        ValKind::Int { min, max } => {
            let lo = (*min).max(0);
            let hi = (*max).min(200).max(lo);
            json!(lo + rng.below((hi - lo + 1) as usize) as i64)
        }
        ValKind::Str => json!(word(rng)),
        ValKind::Enum(v) => json!(v[rng.below(v.len())]),
        ValKind::Array(item) => {
            let n = rng.range(0, 4);
            Value::Array((0..n).map(|_| valid_value(rng, item)).collect())
        }
        ValKind::Map(item) => {
            let n = rng.range(0, 3);
            let mut m = Map::new();
            for _ in 0..n {
                // keys without dots (a dot inside a free key is a different question from C32's)
                m.insert(word(rng).replace('.', "_"), valid_value(rng, item));
            }
            Value::Object(m)
        }
        ValKind::PathItem => {
            if rng.bool() {
                json!(format!("/{}/{}", word(rng), word(rng)))
            } else {
                json!({"path": format!("/{}", word(rng)), "ignoreDir": [word(rng)], "ignoreGlobs": ["**/*.spec.lua"]})
            }
        }
        ValKind::Record(fields) => {
            let mut m = Map::new();
            for (k, kd) in fields {
                m.insert(k.clone(), valid_value(rng, kd));
            }
            Value::Object(m)
        }
        ValKind::Any => json!(null),
    }
}

/// A value whose JSON type is (most likely) not what the setting expects.
pub fn wrong_value(rng: &mut Rng) -> Value {
    match rng.below(14) {
        0 => json!(null),
        1 => json!(true),
        2 => json!(-1),
        3 => json!(1.5e300),
        4 => json!(18446744073709551615u64),
        5 => json!(""),
        6 => json!("x".repeat(rng.range(1, 200))),
        7 => json!([]),
        8 => json!({}),
        9 => json!([null, 1, "a", [], {}]),
        10 => json!({"a": {"b": {"c": 1}}}),
        11 => json!({"": 1, ".": 2, "a.": 3, ".a": 4, "a..b": 5}),
        12 => json!([[[[[[]]]]]]),
        _ => json!("\u{0}"),
    }
}

/// Value for C31: valid, wrong-typed, or (for path settings) a hostile path string in every shape
/// the setting accepts.
pub fn hostile_value(rng: &mut Rng, key: &KeyInfo) -> Value {
    if key.is_path && !rng.chance(1, 5) {
        let n = rng.range(1, 3);
        let items: Vec<Value> = (0..n)
            .map(|_| {
                let p = path_string(rng);
                if key.kind == ValKind::Array(Box::new(ValKind::PathItem)) && rng.chance(1, 3) {
                    json!({"path": p, "ignoreDir": [path_string(rng), path_string(rng)], "ignoreGlobs": [path_string(rng)]})
                } else {
                    json!(p)
                }
            })
            .collect();
        return Value::Array(items);
    }
    match rng.below(10) {
        0..=5 => valid_value(rng, &key.kind),
        6 if key.nullable => json!(null),
        _ => wrong_value(rng),
    }
}

// ───────────────────────── spelling / rendering ─────────────────────────

#[derive(Clone, Debug)]
pub struct Setting {
    pub path: Vec<String>,
    pub value: Value,
    /// bit i set = segments i and i+1 are joined with a dot into one JSON key
    /// (0 = fully nested, all ones = fully flat)
    pub joins: u32,
}

impl Setting {
    pub fn dotted(&self) -> String {
        self.path.join(".")
    }
    pub fn spelling_name(&self) -> &'static str {
        spelling_name(self.path.len(), self.joins)
    }
}

pub fn flat_mask(len: usize) -> u32 {
    if len <= 1 { 0 } else { (1u32 << (len - 1)) - 1 }
}

pub fn spelling_name(len: usize, joins: u32) -> &'static str {
    let full = flat_mask(len);
    let j = joins & full;
    if len <= 1 {
        "single"
    } else if j == 0 {
        "nested"
    } else if j == full {
        "flat"
    } else {
        "mixed"
    }
}

pub fn random_joins(rng: &mut Rng, len: usize) -> u32 {
    match rng.below(5) {
        0 | 1 => 0,
        2 | 3 => flat_mask(len),
        _ => (rng.next_u64() as u32) & flat_mask(len),
    }
}

/// The JSON keys under which `path` is written for a given join mask.
pub fn spell(path: &[String], joins: u32) -> Vec<String> {
    let mut out: Vec<String> = Vec::new();
    for (i, seg) in path.iter().enumerate() {
        if i > 0 && (joins >> (i - 1)) & 1 == 1 {
            let last = out.last_mut().unwrap();
            last.push('.');
            last.push_str(seg);
        } else {
            out.push(seg.clone());
        }
    }
    out
}

/// Insert `value` under the spelled keys; existing objects on the way are reused, anything else is
/// replaced (later settings win inside one rendered document).
pub fn insert_spelled(root: &mut Map<String, Value>, keys: &[String], value: Value) {
    if keys.len() == 1 {
        root.insert(keys[0].clone(), value);
        return;
    }
    let e = root.entry(keys[0].clone()).or_insert_with(|| Value::Object(Map::new()));
    if !e.is_object() {
        *e = Value::Object(Map::new());
    }
    insert_spelled(e.as_object_mut().unwrap(), &keys[1..], value);
}

pub fn render(settings: &[Setting]) -> Value {
    let mut root = Map::new();
    for s in settings {
        insert_spelled(&mut root, &spell(&s.path, s.joins), s.value.clone());
    }
    Value::Object(root)
}

/// Reference normalisation: every dotted key (at any depth) is expanded into nested objects.
/// Objects are merged, anything else is overwritten by the later key in iteration order — callers that
/// need an unambiguous meaning must not set one setting twice in one document.
pub fn normalize_nested(v: &Value) -> Value {
    match v {
        Value::Object(m) => {
            let mut out = Map::new();
            for (k, val) in m {
                let segs: Vec<String> = k.split('.').map(|s| s.to_string()).collect();
                let inner = normalize_nested(val);
                merge_into(&mut out, &segs, inner);
            }
            Value::Object(out)
        }
        other => other.clone(),
    }
}

fn merge_into(root: &mut Map<String, Value>, segs: &[String], value: Value) {
    if segs.len() == 1 {
        match (root.get_mut(&segs[0]), value) {
            (Some(Value::Object(a)), Value::Object(b)) => {
                for (k, v) in b {
                    merge_into(a, &[k], v);
                }
            }
            (_, v) => {
                root.insert(segs[0].clone(), v);
            }
        }
        return;
    }
    let e = root.entry(segs[0].clone()).or_insert_with(|| Value::Object(Map::new()));
    if !e.is_object() {
        *e = Value::Object(Map::new());
    }
    merge_into(e.as_object_mut().unwrap(), &segs[1..], value);
}

// ───────────────────────── C31 documents ─────────────────────────

/// What a hostile document contains (for fingerprints, non-triviality and signatures).
#[derive(Clone, Debug, Default)]
pub struct DocTraits {
    pub settings: usize,
    pub collisions: usize,
    pub wrong_types: usize,
    pub path_strings: usize,
    pub unknown_keys: usize,
}

/// One top-level entry of a hostile document, kept separately so that witnesses can be shrunk entry-wise.
#[derive(Clone, Debug)]
pub struct Entry {
    pub keys: Vec<String>,
    pub value: Value,
    pub what: &'static str,
}

pub fn render_entries(entries: &[Entry]) -> Value {
    let mut root = Map::new();
    for e in entries {
        insert_spelled_keep(&mut root, &e.keys, e.value.clone());
    }
    Value::Object(root)
}

/// like insert_spelled, but a non-object on the way is *kept* when the new entry is nested below it only
/// if it cannot be kept; used for collisions we want to survive rendering: the colliding keys are
/// different JSON keys (`"a"` vs `"a.b"`), so both survive.
fn insert_spelled_keep(root: &mut Map<String, Value>, keys: &[String], value: Value) {
    if keys.len() == 1 {
        root.insert(keys[0].clone(), value);
        return;
    }
    let e = root.entry(keys[0].clone()).or_insert_with(|| Value::Object(Map::new()));
    if let Some(m) = e.as_object_mut() {
        insert_spelled_keep(m, &keys[1..], value);
    }
    // a scalar already sits there under the same JSON key: the entry cannot be expressed, drop it
}

pub fn hostile_entries(rng: &mut Rng, ks: &KeySpace) -> (Vec<Entry>, DocTraits) {
    let mut es = Vec::new();
    let mut tr = DocTraits::default();
    let n = match rng.below(8) {
        0 => 0,
        1 => 1,
        _ => rng.range(1, 8),
    };
    for _ in 0..n {
        let key = if rng.chance(1, 3) { ks.pick_where(rng, |k| k.is_path).unwrap_or(&ks.keys[0]) } else { ks.pick(rng) };
        let value = hostile_value(rng, key);
        if key.is_path {
            tr.path_strings += 1;
        }
        let joins = random_joins(rng, key.path.len());
        es.push(Entry { keys: spell(&key.path, joins), value, what: "setting" });
        tr.settings += 1;
        // collisions: the setting's prefix as a value, or the setting as a prefix of something deeper
        if rng.chance(1, 4) {
            tr.collisions += 1;
            let scalar = match rng.below(5) {
                0 => json!(1),
                1 => json!("s"),
                2 => json!(true),
                3 => json!([1]),
                _ => json!(null),
            };
            match rng.below(4) {
                0 => {
                    // a proper prefix holds a scalar, spelled flat: {"a": 1, "a.b": v} / {"a.b": 1, "a.b.c": v}
                    let cut = rng.range(1, key.path.len().max(2) - 1).min(key.path.len());
                    let p: Vec<String> = key.path[..cut].to_vec();
                    es.push(Entry { keys: vec![p.join(".")], value: scalar, what: "prefix-is-value" });
                    // make sure the setting itself is spelled so that the two are different JSON keys
                    let last = es.len() - 2;
                    es[last].keys = vec![key.path.join(".")];
                }
                1 => {
                    // something deeper than a scalar-valued setting: {"a.b": v, "a.b.c": 1} / {"a.b": v, "a.b.c.d": 1}
                    let mut p = key.path.clone();
                    p.push(word(rng));
                    if rng.bool() {
                        p.push(word(rng));
                    }
                    let last = es.len() - 1;
                    es[last].keys = vec![key.path.join(".")];
                    es.push(Entry { keys: vec![p.join(".")], value: scalar, what: "value-is-prefix" });
                }
                2 => {
                    // nested scalar + flat deeper: {"a": {"b": 1}, "a.b.c": 2}
                    let mut p = key.path.clone();
                    p.push(word(rng));
                    let last = es.len() - 1;
                    es[last].keys = key.path.clone();
                    es.push(Entry { keys: vec![p.join(".")], value: scalar, what: "nested-value-is-prefix" });
                }
                _ => {
                    // same setting in two spellings with different values
                    let v2 = hostile_value(rng, key);
                    let last = es.len() - 1;
                    es[last].keys = key.path.clone();
                    es.push(Entry { keys: vec![key.path.join(".")], value: v2, what: "both-spellings" });
                }
            }
        }
    }
    if rng.chance(1, 4) {
        tr.unknown_keys += 1;
        let k = match rng.below(7) {
            0 => "".to_string(),
            1 => ".".to_string(),
            2 => "..".to_string(),
            3 => "a..b".to_string(),
            4 => "workspace.".to_string(),
            5 => ".workspace".to_string(),
            _ => format!("{}.{}", word(rng), word(rng)),
        };
        es.push(Entry { keys: vec![k], value: wrong_value(rng), what: "unknown-key" });
    }
    for e in &es {
        if e.what == "setting" && !e.value.is_null() {
            // counted loosely: anything produced by wrong_value
        }
    }
    tr.wrong_types = es.iter().filter(|e| e.what != "setting").count();
    (es, tr)
}

/// A non-object or otherwise odd root document.
pub fn odd_root(rng: &mut Rng) -> Value {
    match rng.below(8) {
        0 => json!(null),
        1 => json!([]),
        2 => json!([{"diagnostics": {"enable": false}}]),
        3 => json!("string"),
        4 => json!(42),
        5 => json!(true),
        6 => json!({}),
        _ => json!([1, 2, 3]),
    }
}

// ───────────────────────── Lua rendering ─────────────────────────

fn lua_string(s: &str) -> String {
    let mut o = String::from("\"");
    for b in s.bytes() {
        match b {
            b'"' => o.push_str("\\\""),
            b'\\' => o.push_str("\\\\"),
            b'\n' => o.push_str("\\n"),
            b'\r' => o.push_str("\\r"),
            0 => o.push_str("\\0"),
            0x20..=0x7e => o.push(b as char),
            _ => o.push_str(&format!("\\{}", b)),
        }
    }
    o.push('"');
    o
}

/// JSON value as a Lua expression (`null` → `nil`, arrays → sequences, objects → `["k"] = v`).
pub fn to_lua(v: &Value) -> String {
    match v {
        Value::Null => "nil".into(),
        Value::Bool(b) => b.to_string(),
        Value::Number(n) => {
            let s = n.to_string();
            if s.contains("e+") || s.contains("E+") { s.replace("e+", "e").replace("E+", "e") } else { s }
        }
        Value::String(s) => lua_string(s),
        Value::Array(a) => format!("{{{}}}", a.iter().map(to_lua).collect::<Vec<_>>().join(", ")),
        Value::Object(m) => format!("{{{}}}", m.iter().map(|(k, v)| format!("[{}] = {}", lua_string(k), to_lua(v))).collect::<Vec<_>>().join(", ")),
    }
}

/// Lua config sources that are not a plain table (syntax error, runtime error, wrong return type …).
pub const ODD_LUA: &[&str] = &[
    "",
    "return",
    "return nil",
    "return 1",
    "return 'str'",
    "return function() end",
    "return {",
    "return {} }",
    "error('boom')",
    "error({})",
    "local x = nil; return x.y",
    "return { diagnostics = { enable = false } }, 2",
    "return { [1] = 'a', [3] = 'c' }",
    "return { [1.5] = 1 }",
    "return { [true] = 1 }",
    "return { f = function() end }",
    "return { diagnostics = { globals = { 'a', 'b' } } }",
    "local t = {}; t.self = t; return t",
    "return setmetatable({}, { __index = function() error('idx') end })",
    "return setmetatable({}, { __pairs = function() error('pairs') end })",
    "return { workspace = { library = { '~' } } }",
    "return { [\"a\"] = 1, [\"a.b\"] = 2 }",
    "return require('nonexistent_module_xyz')",
    "return { os.getenv('HOME') }",
    "return { n = 0/0, i = 1/0, m = math.mininteger }",
    "return { s = string.rep('x', 100000) }",
    "return { ['\\0'] = '\\0' }",
    "return { '\\xff\\xfe' }",
    "\u{feff}return {}",
    "#!shebang\nreturn {}",
    "return coroutine",
    "return io",
    "goto done; ::done:: return {}",
];
