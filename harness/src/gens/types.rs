//! G-types — generator of annotation-grammar types over a generated class hierarchy.
//!
//! Owned by the C16/C17/C18 family. Everything here is a pure function of an `Rng`:
//!
//! * `Ty`      — the generator's own type AST (never emmylua's tree) + printer to annotation syntax
//! * `Hier`    — a generated hierarchy (chains, diamonds, generic classes, aliases, enums) and the
//!               Lua definition file that declares it
//! * `gen_type`— random `Ty` over a `Hier`; `GenOpts::c17_subset` restricts to the sub-grammar
//!               whose display syntax is annotation syntax (C17)
//! * `Canon`   — order-insensitive structural normal form of a real `LuaType` (unions as sets),
//!               used by the oracles to compare real types with each other
//! * `shrink`  — greedy shrinking over the AST (never over characters)
//! * `TypeWs`  — a `VirtualWorkspace` wrapper that evaluates many annotations per file

use crate::rng::Rng;
use emmylua_code_analysis::{
    AsyncState, DiagnosticCode, FileId, LuaMemberKey, LuaType, RenderLevel, VariadicType, VirtualWorkspace, humanize_type,
};
use emmylua_parser::{LuaAstNode, LuaAstToken, LuaLocalName};
use std::collections::{BTreeMap, BTreeSet};

// ───────────────────────────── AST ─────────────────────────────

pub const PRIMS: &[&str] = &["integer", "string", "boolean", "number", "nil", "table", "function", "thread", "userdata", "any", "unknown"];

#[derive(Clone, Debug, PartialEq, Eq, Hash, PartialOrd, Ord)]
pub enum Ty {
    Prim(&'static str),
    Str(String),
    Int(i64),
    Bool(bool),
    Union(Vec<Ty>),
    Opt(Box<Ty>),
    Array(Box<Ty>),
    Tuple(Vec<Ty>),
    Map(Box<Ty>, Box<Ty>),
    Record(Vec<Field>),
    Fun(Box<FunTy>),
    Generic(String, Vec<Ty>),
    Class(String),
    Alias(String),
    Enum(String),
    /// `T...` — only generated as last tuple element / last fun return (exotic, C16 only)
    Variadic(Box<Ty>),
}

#[derive(Clone, Debug, PartialEq, Eq, Hash, PartialOrd, Ord)]
pub enum FieldKey {
    Name(String),
    Int(i64),
    /// `["some text"]`
    Str(String),
    /// index signature `[K]: V`
    Index(Ty),
}

#[derive(Clone, Debug, PartialEq, Eq, Hash, PartialOrd, Ord)]
pub struct Field {
    pub key: FieldKey,
    pub optional: bool,
    pub ty: Ty,
}

#[derive(Clone, Debug, PartialEq, Eq, Hash, PartialOrd, Ord)]
pub struct Param {
    pub name: String,
    pub optional: bool,
    pub ty: Option<Ty>,
}

#[derive(Clone, Debug, PartialEq, Eq, Hash, PartialOrd, Ord)]
pub struct FunTy {
    pub is_async: bool,
    /// `fun<T>(...)` — the parameter name; params/rets may then mention `Class(T)`-like names via `Ty::Class`
    pub generic: Option<String>,
    pub params: Vec<Param>,
    /// `...` / `...: T`
    pub vararg: Option<Option<Ty>>,
    pub rets: Vec<Ty>,
}

// ───────────────────────────── printer ─────────────────────────────

#[derive(Clone, Copy, PartialEq, Eq)]
enum Pos {
    /// a full `parse_type` position: anything goes
    Top,
    /// operand of `|`
    UnionMember,
    /// operand of a postfix `[]` / `?` / `...`
    Postfix,
    /// element of a comma separated list (a multi-return `fun` would swallow the rest)
    ListItem,
}

pub fn escape_str(s: &str, quote: char) -> String {
    let mut o = String::new();
    o.push(quote);
    for ch in s.chars() {
        match ch {
            '\\' => o.push_str("\\\\"),
            '\n' => o.push_str("\\n"),
            '\r' => o.push_str("\\r"),
            '\t' => o.push_str("\\t"),
            '\0' => o.push_str("\\0"),
            c if c == quote => {
                o.push('\\');
                o.push(c)
            }
            c if (c as u32) < 0x20 || c as u32 == 0x7f => o.push_str(&format!("\\x{:02X}", c as u32)),
            c if (0x80..0xA0).contains(&(c as u32)) => o.push_str(&format!("\\u{{{:X}}}", c as u32)),
            c => o.push(c),
        }
    }
    o.push(quote);
    o
}

/// The annotation lexer ends a string literal at the next occurrence of its opening quote and
/// knows no `\"` escape, so a literal containing `"` must be written with single quotes (and a
/// literal containing both kinds of quote cannot be written at all: the generator never makes one).
pub fn quote_for(s: &str) -> char {
    if s.contains('"') && !s.contains('\'') { '\'' } else { '"' }
}

pub fn is_ident(s: &str) -> bool {
    let mut cs = s.chars();
    match cs.next() {
        Some(c) if c.is_ascii_alphabetic() || c == '_' => {}
        _ => return false,
    }
    cs.all(|c| c.is_ascii_alphanumeric() || c == '_')
}

impl Ty {
    pub fn print(&self) -> String {
        let mut s = String::new();
        self.print_at(Pos::Top, &mut s);
        s
    }

    fn needs_paren(&self, pos: Pos) -> bool {
        match pos {
            Pos::Top => false,
            Pos::ListItem => matches!(self, Ty::Fun(_)),
            Pos::UnionMember => matches!(self, Ty::Union(_) | Ty::Opt(_) | Ty::Fun(_) | Ty::Variadic(_)),
            Pos::Postfix => match self {
                Ty::Union(_) | Ty::Opt(_) | Ty::Fun(_) | Ty::Variadic(_) => true,
                Ty::Int(i) => *i < 0,
                _ => false,
            },
        }
    }

    fn print_at(&self, pos: Pos, o: &mut String) {
        let paren = self.needs_paren(pos);
        if paren {
            o.push('(');
        }
        match self {
            Ty::Prim(p) => o.push_str(p),
            Ty::Str(s) => o.push_str(&escape_str(s, quote_for(s))),
            Ty::Int(i) => o.push_str(&i.to_string()),
            Ty::Bool(b) => o.push_str(if *b { "true" } else { "false" }),
            Ty::Union(ms) => {
                for (i, m) in ms.iter().enumerate() {
                    if i > 0 {
                        o.push('|');
                    }
                    m.print_at(Pos::UnionMember, o);
                }
            }
            Ty::Opt(t) => {
                t.print_at(Pos::Postfix, o);
                o.push('?');
            }
            Ty::Array(t) => {
                t.print_at(Pos::Postfix, o);
                o.push_str("[]");
            }
            Ty::Tuple(ts) => {
                o.push('[');
                for (i, t) in ts.iter().enumerate() {
                    if i > 0 {
                        o.push_str(", ");
                    }
                    t.print_at(Pos::ListItem, o);
                }
                o.push(']');
            }
            Ty::Map(k, v) => {
                o.push_str("table<");
                k.print_at(Pos::ListItem, o);
                o.push_str(", ");
                v.print_at(Pos::ListItem, o);
                o.push('>');
            }
            Ty::Record(fs) => {
                if fs.is_empty() {
                    o.push_str("{}");
                } else {
                    o.push_str("{ ");
                    for (i, f) in fs.iter().enumerate() {
                        if i > 0 {
                            o.push_str(", ");
                        }
                        match &f.key {
                            FieldKey::Name(n) => o.push_str(n),
                            FieldKey::Int(n) => o.push_str(&format!("[{n}]")),
                            FieldKey::Str(s) => {
                                o.push('[');
                                o.push_str(&escape_str(s, quote_for(s)));
                                o.push(']')
                            }
                            FieldKey::Index(k) => {
                                o.push('[');
                                k.print_at(Pos::Top, o);
                                o.push(']')
                            }
                        }
                        if f.optional {
                            o.push('?');
                        }
                        o.push_str(": ");
                        f.ty.print_at(Pos::ListItem, o);
                    }
                    o.push_str(" }");
                }
            }
            Ty::Fun(f) => {
                if f.is_async {
                    o.push_str("async ");
                }
                o.push_str("fun");
                if let Some(g) = &f.generic {
                    o.push('<');
                    o.push_str(g);
                    o.push('>');
                }
                o.push('(');
                let mut first = true;
                for p in &f.params {
                    if !first {
                        o.push_str(", ");
                    }
                    first = false;
                    o.push_str(&p.name);
                    if p.optional {
                        o.push('?');
                    }
                    if let Some(t) = &p.ty {
                        o.push_str(": ");
                        t.print_at(Pos::ListItem, o);
                    }
                }
                if let Some(v) = &f.vararg {
                    if !first {
                        o.push_str(", ");
                    }
                    o.push_str("...");
                    if let Some(t) = v {
                        o.push_str(": ");
                        t.print_at(Pos::ListItem, o);
                    }
                }
                o.push(')');
                if !f.rets.is_empty() {
                    o.push_str(": ");
                    for (i, r) in f.rets.iter().enumerate() {
                        if i > 0 {
                            o.push_str(", ");
                        }
                        let mut piece = String::new();
                        r.print_at(Pos::ListItem, &mut piece);
                        // `fun(): (` opens the LuaLS-style parenthesised return *list*: a first
                        // return type whose text starts with `(` needs one more pair of parentheses
                        if i == 0 && piece.starts_with('(') {
                            o.push('(');
                            o.push_str(&piece);
                            o.push(')');
                        } else {
                            o.push_str(&piece);
                        }
                    }
                }
            }
            Ty::Generic(n, args) => {
                o.push_str(n);
                o.push('<');
                for (i, a) in args.iter().enumerate() {
                    if i > 0 {
                        o.push_str(", ");
                    }
                    a.print_at(Pos::ListItem, o);
                }
                o.push('>');
            }
            Ty::Class(n) | Ty::Alias(n) | Ty::Enum(n) => o.push_str(n),
            Ty::Variadic(t) => {
                t.print_at(Pos::Postfix, o);
                o.push_str("...");
            }
        }
        if paren {
            o.push(')');
        }
    }

    pub fn children(&self) -> Vec<&Ty> {
        match self {
            Ty::Union(v) | Ty::Tuple(v) | Ty::Generic(_, v) => v.iter().collect(),
            Ty::Opt(t) | Ty::Array(t) | Ty::Variadic(t) => vec![t],
            Ty::Map(k, v) => vec![k, v],
            Ty::Record(fs) => {
                let mut o = Vec::new();
                for f in fs {
                    if let FieldKey::Index(k) = &f.key {
                        o.push(k);
                    }
                    o.push(&f.ty);
                }
                o
            }
            Ty::Fun(f) => {
                let mut o: Vec<&Ty> = f.params.iter().filter_map(|p| p.ty.as_ref()).collect();
                if let Some(Some(t)) = &f.vararg {
                    o.push(t);
                }
                o.extend(f.rets.iter());
                o
            }
            _ => vec![],
        }
    }

    pub fn nodes(&self) -> usize {
        1 + self.children().iter().map(|c| c.nodes()).sum::<usize>()
    }

    pub fn depth(&self) -> usize {
        1 + self.children().iter().map(|c| c.depth()).max().unwrap_or(0)
    }

    /// names of classes / aliases / enums / generic bases mentioned
    pub fn names(&self, out: &mut BTreeSet<String>) {
        match self {
            Ty::Class(n) | Ty::Alias(n) | Ty::Enum(n) => {
                out.insert(n.clone());
            }
            Ty::Generic(n, _) => {
                out.insert(n.clone());
            }
            _ => {}
        }
        for c in self.children() {
            c.names(out);
        }
    }

    pub fn ctor(&self) -> &'static str {
        match self {
            Ty::Prim(p) => p,
            Ty::Str(_) => "strlit",
            Ty::Int(_) => "intlit",
            Ty::Bool(_) => "boollit",
            Ty::Union(_) => "union",
            Ty::Opt(_) => "optional",
            Ty::Array(_) => "array",
            Ty::Tuple(_) => "tuple",
            Ty::Map(..) => "map",
            Ty::Record(_) => "record",
            Ty::Fun(_) => "fun",
            Ty::Generic(..) => "generic",
            Ty::Class(_) => "class",
            Ty::Alias(_) => "alias",
            Ty::Enum(_) => "enum",
            Ty::Variadic(_) => "variadic",
        }
    }

    /// Structural skeleton used in signatures: constructors with generalised leaves
    /// (no names, no literal values; string literals carry their character classes).
    pub fn skeleton(&self) -> String {
        match self {
            Ty::Str(s) => format!("strlit{}", str_classes(s)),
            Ty::Int(i) => if *i < 0 { "intlit[neg]".into() } else { "intlit".into() },
            Ty::Record(fs) => {
                let mut parts = Vec::new();
                for f in fs {
                    let k = match &f.key {
                        FieldKey::Name(_) => "name".to_string(),
                        FieldKey::Int(_) => "int".to_string(),
                        FieldKey::Str(s) => if is_ident(s) { "quoted-identifier".to_string() } else { "quoted-non-identifier".to_string() },
                        FieldKey::Index(k) => format!("[{}]", k.skeleton()),
                    };
                    parts.push(format!("{k}{}:{}", if f.optional { "?" } else { "" }, f.ty.skeleton()));
                }
                format!("record{{{}}}", parts.join(","))
            }
            // a generic function type is characterised by being generic; its shape is secondary
            Ty::Fun(f) if f.generic.is_some() => "fun<T>".to_string(),
            // union members are a set: sort their skeletons
            Ty::Union(ms) => {
                let mut parts: Vec<String> = ms.iter().map(|m| m.skeleton()).collect();
                parts.sort();
                format!("union({})", parts.join(","))
            }
            Ty::Fun(f) => {
                let mut parts: Vec<String> = f.params.iter().map(|p| format!("{}{}", if p.optional { "?" } else { "" }, p.ty.as_ref().map(|t| t.skeleton()).unwrap_or_else(|| "_".into()))).collect();
                if let Some(v) = &f.vararg {
                    parts.push(format!("...{}", v.as_ref().map(|t| t.skeleton()).unwrap_or_default()));
                }
                let rets: Vec<String> = f.rets.iter().map(|r| r.skeleton()).collect();
                format!("{}fun{}({})->({})", if f.is_async { "async-" } else { "" }, if f.generic.is_some() { "<T>" } else { "" }, parts.join(","), rets.join(","))
            }
            _ => {
                let ch = self.children();
                if ch.is_empty() {
                    self.ctor().to_string()
                } else {
                    format!("{}({})", self.ctor(), ch.iter().map(|c| c.skeleton()).collect::<Vec<_>>().join(","))
                }
            }
        }
    }
}

impl Ty {
    /// Constructor label of this node alone, with the signature-relevant refinements.
    fn label(&self) -> String {
        match self {
            Ty::Fun(f) if f.generic.is_some() => "fun<T>".into(),
            Ty::Str(s) => format!("strlit{}", str_classes(s)),
            Ty::Int(i) if *i < 0 => "intlit[neg]".into(),
            Ty::Record(fs) if fs.iter().any(|f| matches!(&f.key, FieldKey::Str(k) if !is_ident(k))) => "record[quoted-non-identifier-key]".into(),
            t => t.ctor().to_string(),
        }
    }

    fn exotic_rank(&self) -> u32 {
        match self {
            Ty::Fun(f) if f.generic.is_some() => 100,
            Ty::Variadic(_) => 90,
            Ty::Generic(..) => 80,
            Ty::Fun(_) => 70,
            Ty::Tuple(_) => 60,
            Ty::Record(_) => 50,
            Ty::Map(..) => 45,
            Ty::Array(_) => 40,
            Ty::Opt(_) => 35,
            Ty::Union(_) => 30,
            Ty::Enum(_) => 25,
            Ty::Alias(_) => 24,
            Ty::Class(_) => 20,
            Ty::Str(s) if !str_classes(s).is_empty() => 15,
            Ty::Int(i) if *i < 0 => 14,
            Ty::Str(_) | Ty::Int(_) | Ty::Bool(_) => 10,
            Ty::Prim("integer") | Ty::Prim("string") => 1,
            Ty::Prim(_) => 5,
        }
    }

    fn most_exotic(&self) -> &Ty {
        let mut best = self;
        for c in self.children() {
            let m = c.most_exotic();
            if m.exotic_rank() > best.exotic_rank() {
                best = m;
            }
        }
        best
    }

    /// `outer=<root constructor>:inner=<most exotic constructor below the root>` of a shrunk witness.
    pub fn outer_inner(&self) -> String {
        let inner = self.children().iter().map(|c| c.most_exotic()).max_by_key(|t| t.exotic_rank()).map(|t| t.label()).unwrap_or_else(|| "-".into());
        format!("outer={}:inner={}", self.label(), inner)
    }

    /// Every class/alias/enum/generic name used is either declared in `h` or bound by an enclosing
    /// `fun<T>` (a shrink step may not hoist `T` out of its generic function).
    pub fn well_scoped(&self, h: &Hier) -> bool {
        fn go(t: &Ty, h: &Hier, bound: &mut Vec<String>) -> bool {
            let known = |n: &str, bound: &Vec<String>| bound.iter().any(|b| b == n) || h.classes.iter().any(|c| c.name == n) || h.aliases.iter().any(|a| a.name == n) || h.enums.iter().any(|e| e.name == n);
            match t {
                Ty::Class(n) | Ty::Alias(n) | Ty::Enum(n) => {
                    if !known(n, bound) {
                        return false;
                    }
                }
                Ty::Generic(n, _) => {
                    if !known(n, bound) {
                        return false;
                    }
                }
                _ => {}
            }
            let pushed = match t {
                Ty::Fun(f) => match &f.generic {
                    Some(g) => {
                        bound.push(g.clone());
                        true
                    }
                    None => false,
                },
                _ => false,
            };
            let ok = t.children().iter().all(|c| go(c, h, bound));
            if pushed {
                bound.pop();
            }
            ok
        }
        go(self, h, &mut Vec::new())
    }
}

/// character classes occurring in a string literal (for signatures)
pub fn str_classes(s: &str) -> String {
    let mut set = BTreeSet::new();
    for c in s.chars() {
        let k = match c {
            '"' => "dquote",
            '\'' => "squote",
            '\\' => "backslash",
            '\n' | '\r' | '\t' => "nl-tab",
            c if (c as u32) < 0x20 || c as u32 == 0x7f => "c0-control",
            c if (0x80..0xA0).contains(&(c as u32)) => "c1-control",
            c if !c.is_ascii() => "non-ascii",
            c if c.is_ascii_alphanumeric() || c == '_' => continue,
            ' ' => "space",
            _ => "punct",
        };
        set.insert(k);
    }
    if set.is_empty() { String::new() } else { format!("[{}]", set.into_iter().collect::<Vec<_>>().join("+")) }
}

// ───────────────────────────── hierarchy ─────────────────────────────

#[derive(Clone, Debug)]
pub struct ClassDef {
    pub name: String,
    /// generic parameter names (empty for plain classes)
    pub tparams: Vec<String>,
    /// parents as printed types (`C0`, `Box<integer>`, `string`)
    pub parents: Vec<Ty>,
    pub fields: Vec<(String, Ty)>,
}

#[derive(Clone, Debug)]
pub struct AliasDef {
    pub name: String,
    /// generic parameter names (`---@alias M0<T> T?`); empty for plain aliases
    pub tparams: Vec<String>,
    pub ty: Ty,
    /// declared with the multi-line `---| "a"` form
    pub multiline: bool,
}

#[derive(Clone, Debug)]
pub struct EnumDef {
    pub name: String,
    pub key_enum: bool,
    /// (field name, value)
    pub items: Vec<(String, Ty)>,
}

#[derive(Clone, Debug, Default)]
pub struct Hier {
    /// arguments used to instantiate generic classes in `ancestor_pairs`
    pub inst_args: Vec<Ty>,
    pub classes: Vec<ClassDef>,
    pub aliases: Vec<AliasDef>,
    pub enums: Vec<EnumDef>,
}

impl Hier {
    /// Plain (non generic) class names.
    pub fn plain_classes(&self) -> Vec<&str> {
        self.classes.iter().filter(|c| c.tparams.is_empty()).map(|c| c.name.as_str()).collect()
    }
    pub fn generic_classes(&self) -> Vec<(&str, usize)> {
        self.classes.iter().filter(|c| !c.tparams.is_empty()).map(|c| (c.name.as_str(), c.tparams.len())).collect()
    }
    pub fn generic_aliases(&self) -> Vec<(&str, usize)> {
        self.aliases.iter().filter(|a| !a.tparams.is_empty()).map(|a| (a.name.as_str(), a.tparams.len())).collect()
    }
    pub fn plain_aliases(&self) -> Vec<&str> {
        self.aliases.iter().filter(|a| a.tparams.is_empty()).map(|a| a.name.as_str()).collect()
    }
    pub fn class(&self, name: &str) -> Option<&ClassDef> {
        self.classes.iter().find(|c| c.name == name)
    }

    /// Ancestors of a class type (a plain class, or an instance of a generic class), with the
    /// generic parameters substituted along the way: (ancestor as written in the headers, distance).
    pub fn instance_ancestors(&self, inst: &Ty) -> Vec<(Ty, usize)> {
        let mut out: Vec<(Ty, usize)> = Vec::new();
        let mut seen: BTreeSet<String> = BTreeSet::new();
        let mut frontier: Vec<(Ty, usize)> = vec![(inst.clone(), 0)];
        while let Some((cur, d)) = frontier.pop() {
            let (name, args): (&str, Vec<Ty>) = match &cur {
                Ty::Class(n) => (n.as_str(), vec![]),
                Ty::Generic(n, a) => (n.as_str(), a.clone()),
                _ => continue,
            };
            let Some(def) = self.class(name) else { continue };
            if def.tparams.len() != args.len() {
                continue;
            }
            for p in &def.parents {
                let tparams = def.tparams.clone();
                let args2 = args.clone();
                let p2 = p.rewrite(&|t| match &t {
                    Ty::Class(n) => match tparams.iter().position(|tp| tp == n) {
                        Some(ix) => args2[ix].clone(),
                        None => t,
                    },
                    _ => t,
                });
                if seen.insert(p2.print()) {
                    out.push((p2.clone(), d + 1));
                    frontier.push((p2, d + 1));
                }
            }
        }
        out
    }

    /// All (ancestor, descendant, distance) pairs: every plain class and one instance of every
    /// generic class (arguments `inst_args`) against each of its ancestors.
    pub fn ancestor_pairs(&self) -> Vec<(Ty, Ty, usize)> {
        let mut out = Vec::new();
        for c in &self.classes {
            let inst = if c.tparams.is_empty() {
                Ty::Class(c.name.clone())
            } else {
                Ty::Generic(c.name.clone(), (0..c.tparams.len()).map(|i| self.inst_args[i % self.inst_args.len().max(1)].clone()).collect())
            };
            for (a, d) in self.instance_ancestors(&inst) {
                out.push((a, inst.clone(), d));
            }
        }
        out.sort_by(|a, b| (a.1.print(), a.0.print()).cmp(&(b.1.print(), b.0.print())));
        out
    }

    /// The Lua file declaring everything (or only what `only` transitively needs).
    pub fn to_lua(&self, only: Option<&BTreeSet<String>>) -> String {
        let keep = only.map(|o| self.closure(o));
        let want = |n: &str| keep.as_ref().map(|k| k.contains(n)).unwrap_or(true);
        let mut s = String::new();
        for c in &self.classes {
            if !want(&c.name) {
                continue;
            }
            s.push_str("---@class ");
            s.push_str(&c.name);
            if !c.tparams.is_empty() {
                s.push('<');
                s.push_str(&c.tparams.join(", "));
                s.push('>');
            }
            if !c.parents.is_empty() {
                s.push_str(": ");
                s.push_str(&c.parents.iter().map(|p| p.print()).collect::<Vec<_>>().join(", "));
            }
            s.push('\n');
            for (f, t) in &c.fields {
                s.push_str(&format!("---@field {f} {}\n", t.print()));
            }
            s.push('\n');
        }
        for a in &self.aliases {
            if !want(&a.name) {
                continue;
            }
            let head = if a.tparams.is_empty() { a.name.clone() } else { format!("{}<{}>", a.name, a.tparams.join(", ")) };
            match (&a.ty, a.multiline) {
                (Ty::Union(ms), true) => {
                    s.push_str(&format!("---@alias {}\n", head));
                    for m in ms {
                        s.push_str(&format!("---| {}\n", m.print()));
                    }
                }
                _ => s.push_str(&format!("---@alias {} {}\n", head, a.ty.print())),
            }
            s.push('\n');
        }
        for e in &self.enums {
            if !want(&e.name) {
                continue;
            }
            s.push_str(&format!("---@enum {}{}\nlocal {} = {{\n", if e.key_enum { "(key) " } else { "" }, e.name, e.name));
            for (k, v) in &e.items {
                let vs = match v {
                    Ty::Str(x) => escape_str(x, '"'),
                    Ty::Int(i) => i.to_string(),
                    _ => "0".into(),
                };
                s.push_str(&format!("    {k} = {vs},\n"));
            }
            s.push_str("}\n\n");
        }
        s
    }

    fn closure(&self, roots: &BTreeSet<String>) -> BTreeSet<String> {
        let mut keep = roots.clone();
        loop {
            let mut add = BTreeSet::new();
            for c in &self.classes {
                if keep.contains(&c.name) {
                    for p in &c.parents {
                        p.names(&mut add);
                    }
                    for (_, t) in &c.fields {
                        t.names(&mut add);
                    }
                }
            }
            for a in &self.aliases {
                if keep.contains(&a.name) {
                    a.ty.names(&mut add);
                }
            }
            let before = keep.len();
            keep.extend(add);
            if keep.len() == before {
                return keep;
            }
        }
    }

    /// Deterministic generation: at least one chain of length 4, one diamond, two generic
    /// classes with plain subclasses, a class derived from a primitive, 3–5 aliases, 3 enums.
    pub fn generate(rng: &mut Rng) -> Hier {
        let mut h = Hier::default();
        let leaf = |rng: &mut Rng| -> Ty {
            match rng.below(6) {
                0 => Ty::Prim("integer"),
                1 => Ty::Prim("string"),
                2 => Ty::Prim("boolean"),
                3 => Ty::Opt(Box::new(Ty::Prim("string"))),
                4 => Ty::Array(Box::new(Ty::Prim("integer"))),
                _ => Ty::Prim("number"),
            }
        };
        // chain C0 <- C1 <- C2 <- C3
        for i in 0..4 {
            let mut fields = Vec::new();
            if rng.chance(2, 3) {
                fields.push((format!("c{i}"), leaf(rng)));
            }
            h.classes.push(ClassDef { name: format!("C{i}"), tparams: vec![], parents: if i == 0 { vec![] } else { vec![Ty::Class(format!("C{}", i - 1))] }, fields });
        }
        // diamond D0 <- D1, D2 <- D3
        h.classes.push(ClassDef { name: "D0".into(), tparams: vec![], parents: vec![], fields: vec![("d0".into(), leaf(rng))] });
        h.classes.push(ClassDef { name: "D1".into(), tparams: vec![], parents: vec![Ty::Class("D0".into())], fields: vec![] });
        h.classes.push(ClassDef { name: "D2".into(), tparams: vec![], parents: vec![Ty::Class("D0".into())], fields: if rng.bool() { vec![("d2".into(), leaf(rng))] } else { vec![] } });
        h.classes.push(ClassDef { name: "D3".into(), tparams: vec![], parents: vec![Ty::Class("D1".into()), Ty::Class("D2".into())], fields: vec![] });
        // random extra classes with 0..2 parents among earlier plain classes
        let extra = rng.range(2, 5);
        for i in 0..extra {
            let plain: Vec<String> = h.plain_classes().iter().map(|s| s.to_string()).collect();
            let np = match rng.below(10) {
                0..=2 => 0,
                3..=7 => 1,
                _ => 2,
            };
            let mut parents: Vec<Ty> = Vec::new();
            for _ in 0..np {
                let p = Ty::Class(plain[rng.below(plain.len())].clone());
                if !parents.contains(&p) {
                    parents.push(p);
                }
            }
            let mut fields = Vec::new();
            if rng.bool() {
                fields.push((format!("x{i}"), leaf(rng)));
            }
            h.classes.push(ClassDef { name: format!("X{i}"), tparams: vec![], parents, fields });
        }
        // generic classes and plain subclasses of their instances
        h.classes.push(ClassDef { name: "Box".into(), tparams: vec!["T".into()], parents: vec![], fields: vec![("value".into(), Ty::Class("T".into()))] });
        h.classes.push(ClassDef { name: "Pair".into(), tparams: vec!["K".into(), "V".into()], parents: vec![], fields: vec![("k".into(), Ty::Class("K".into())), ("v".into(), Ty::Class("V".into()))] });
        let arg = leaf(rng);
        h.classes.push(ClassDef { name: "G0".into(), tparams: vec![], parents: vec![Ty::Generic("Box".into(), vec![arg])], fields: vec![] });
        h.classes.push(ClassDef { name: "G1".into(), tparams: vec![], parents: vec![Ty::Class("G0".into())], fields: vec![] });
        // generic chain H1<T> : H0<T> : Box<T>, and plain classes below an instance of it
        h.classes.push(ClassDef { name: "H0".into(), tparams: vec!["T".into()], parents: vec![Ty::Generic("Box".into(), vec![Ty::Class("T".into())])], fields: vec![] });
        h.classes.push(ClassDef { name: "H1".into(), tparams: vec!["T".into()], parents: vec![Ty::Generic("H0".into(), vec![Ty::Class("T".into())])], fields: if rng.bool() { vec![("h1".into(), Ty::Class("T".into()))] } else { vec![] } });
        let arg2 = leaf(rng);
        h.classes.push(ClassDef { name: "G2".into(), tparams: vec![], parents: vec![Ty::Generic("H1".into(), vec![arg2])], fields: vec![] });
        h.classes.push(ClassDef { name: "G3".into(), tparams: vec![], parents: vec![Ty::Class("G2".into())], fields: vec![] });
        h.inst_args = vec![leaf(rng), leaf(rng)];
        // class derived from a primitive
        h.classes.push(ClassDef { name: "S0".into(), tparams: vec![], parents: vec![Ty::Prim("string")], fields: vec![] });
        // enums
        h.enums.push(EnumDef { name: "E0".into(), key_enum: false, items: vec![("A".into(), Ty::Int(1)), ("B".into(), Ty::Int(2)), ("C".into(), Ty::Int(4))] });
        h.enums.push(EnumDef { name: "E1".into(), key_enum: false, items: vec![("X".into(), Ty::Str("x".into())), ("Y".into(), Ty::Str("y".into()))] });
        h.enums.push(EnumDef { name: "E2".into(), key_enum: true, items: vec![("Red".into(), Ty::Int(1)), ("Green".into(), Ty::Int(2))] });
        // aliases (non recursive; may mention classes, enums and earlier aliases)
        h.aliases.push(AliasDef { name: "A0".into(), tparams: vec![], ty: Ty::Union(vec![Ty::Str("r".into()), Ty::Str("w".into()), Ty::Str("rw".into())]), multiline: false });
        h.aliases.push(AliasDef { name: "A1".into(), tparams: vec![], ty: Ty::Union(vec![Ty::Str("a".into()), Ty::Str("b".into())]), multiline: true });
        let n_al = rng.range(1, 3);
        for i in 0..n_al {
            let opts = GenOpts { depth: 2, c17_subset: false, exotic: false, allow_any: false, allow_unknown: false, generic_alias: false };
            let ty = gen_type(rng, &h, &opts);
            h.aliases.push(AliasDef { name: format!("A{}", i + 2), tparams: vec![], ty, multiline: false });
        }
        // generic aliases
        h.aliases.push(AliasDef { name: "M0".into(), tparams: vec!["T".into()], ty: Ty::Opt(Box::new(Ty::Class("T".into()))), multiline: false });
        h.aliases.push(AliasDef { name: "R0".into(), tparams: vec!["K".into(), "V".into()], ty: Ty::Map(Box::new(Ty::Class("K".into())), Box::new(Ty::Array(Box::new(Ty::Class("V".into()))))), multiline: false });
        h
    }
}

// ───────────────────────────── generator ─────────────────────────────

#[derive(Clone, Debug)]
pub struct GenOpts {
    pub depth: usize,
    /// restrict to the C17 sub-grammar (no tuples, functions, generic instances, variadics)
    pub c17_subset: bool,
    /// allow variadics, generic function types, async, vararg params
    pub exotic: bool,
    /// allow `any` / `unknown` leaves
    pub allow_any: bool,
    /// allow `unknown` leaves (only with `allow_any`)
    pub allow_unknown: bool,
    /// allow instances of generic aliases (`M0<integer>`) next to instances of generic classes
    pub generic_alias: bool,
}

const STR_POOL: &[&str] = &[
    "a", "b", "ok", "x y", "rw", "it's", "say \"hi\"", "back\\slash", "line\nbreak", "tab\there", "a|b", "q?", "[]", "a,b", "é", "日本", "--", "#", "", " ", "\u{7}", "\u{1b}[0m", "\u{85}", "%d", "{}",
    "<T>", "fun()", "nil", "a\\\"b",
];

pub fn gen_str(rng: &mut Rng) -> String {
    if rng.chance(3, 4) {
        rng.pick(STR_POOL).to_string()
    } else {
        let n = rng.range(0, 6);
        let alphabet: Vec<char> = "abXY01 _-'\"\\\n\t|?[](){}<>,.:;#%é日".chars().collect();
        let s: String = (0..n).map(|_| alphabet[rng.below(alphabet.len())]).collect();
        if s.contains('"') && s.contains('\'') { s.replace('\'', "") } else { s }
    }
}

fn gen_leaf(rng: &mut Rng, h: &Hier, o: &GenOpts) -> Ty {
    match rng.below(100) {
        0..=29 => {
            let p = rng.pick(&["integer", "string", "boolean", "number", "table", "function", "thread", "userdata", "nil"]);
            Ty::Prim(p)
        }
        30..=33 if o.allow_any => Ty::Prim(if o.allow_unknown { rng.pick(&["any", "unknown"]) } else { "any" }),
        30..=33 => Ty::Prim("integer"),
        34..=45 => Ty::Str(gen_str(rng)),
        46..=53 => Ty::Int(match rng.below(6) {
            0 => 0,
            1 => -1,
            2 => 1,
            3 => rng.below(1000) as i64,
            4 => -(rng.below(1000) as i64),
            _ => i64::MAX,
        }),
        54..=58 => Ty::Bool(rng.bool()),
        59..=80 => {
            let cs = h.plain_classes();
            if cs.is_empty() { Ty::Prim("integer") } else { Ty::Class(cs[rng.below(cs.len())].to_string()) }
        }
        81..=90 => {
            let al = h.plain_aliases();
            if al.is_empty() { Ty::Prim("string") } else { Ty::Alias(al[rng.below(al.len())].to_string()) }
        }
        _ => {
            if h.enums.is_empty() { Ty::Prim("string") } else { Ty::Enum(h.enums[rng.below(h.enums.len())].name.clone()) }
        }
    }
}

fn field_name(rng: &mut Rng, i: usize) -> String {
    const NAMES: &[&str] = &["a", "b", "id", "name", "x", "y", "on_event", "_p", "k1", "value"];
    format!("{}{}", rng.pick(NAMES), if i > 0 && rng.bool() { i.to_string() } else { String::new() })
}

pub fn gen_type(rng: &mut Rng, h: &Hier, o: &GenOpts) -> Ty {
    if o.depth <= 1 || rng.chance(1, 4) {
        return gen_leaf(rng, h, o);
    }
    let sub = GenOpts { depth: o.depth - 1, ..o.clone() };
    let pick = rng.below(100);
    match pick {
        0..=21 => {
            let n = rng.range(2, 4);
            let mut ms: Vec<Ty> = Vec::new();
            for _ in 0..n {
                let m = gen_type(rng, h, &sub);
                // the generator keeps union members syntactically distinct and un-nested (the
                // annotation `A|(B|C)` flattens anyway; nested unions are still produced via Opt)
                match m {
                    Ty::Union(inner) => {
                        for x in inner {
                            if !ms.contains(&x) {
                                ms.push(x);
                            }
                        }
                    }
                    m => {
                        if !ms.contains(&m) {
                            ms.push(m);
                        }
                    }
                }
            }
            if ms.len() == 1 { ms.pop().unwrap() } else { Ty::Union(ms) }
        }
        22..=33 => Ty::Opt(Box::new(gen_type(rng, h, &sub))),
        34..=47 => Ty::Array(Box::new(gen_type(rng, h, &sub))),
        48..=57 => Ty::Map(Box::new(gen_map_key(rng, h, &sub)), Box::new(gen_type(rng, h, &sub))),
        58..=71 => {
            let n = rng.range(0, 3);
            let mut fs: Vec<Field> = Vec::new();
            for i in 0..n {
                let key = match rng.below(20) {
                    0..=13 => FieldKey::Name(field_name(rng, i)),
                    14..=15 => FieldKey::Int(rng.range(1, 3) as i64),
                    16 => FieldKey::Str(rng.pick(&["a b", "x-y", "k", "1st"]).to_string()),
                    _ => FieldKey::Index(Ty::Prim(rng.pick(&["string", "integer"]))),
                };
                if fs.iter().any(|f| f.key == key) {
                    continue;
                }
                let optional = !matches!(key, FieldKey::Index(_)) && rng.chance(1, 3);
                fs.push(Field { key, optional, ty: gen_type(rng, h, &sub) });
            }
            Ty::Record(fs)
        }
        _ if o.c17_subset => gen_leaf(rng, h, o),
        72..=79 => {
            let n = rng.range(1, 3);
            let mut ts: Vec<Ty> = (0..n).map(|_| gen_type(rng, h, &sub)).collect();
            if o.exotic && rng.chance(1, 5) {
                ts.push(Ty::Variadic(Box::new(Ty::Prim(rng.pick(&["integer", "string", "any"])))));
            }
            Ty::Tuple(ts)
        }
        80..=91 => {
            let np = rng.range(0, 3);
            let generic = if o.exotic && rng.chance(1, 3) { Some("T".to_string()) } else { None };
            let tvar = |rng: &mut Rng, h: &Hier, sub: &GenOpts, generic: &Option<String>| -> Ty {
                match generic {
                    Some(g) if rng.bool() => Ty::Class(g.clone()),
                    _ => gen_type(rng, h, sub),
                }
            };
            let mut params = Vec::new();
            for i in 0..np {
                let ty = if rng.chance(1, 6) { None } else { Some(tvar(rng, h, &sub, &generic)) };
                params.push(Param { name: if i == 0 && rng.chance(1, 8) { "self".into() } else { format!("p{i}") }, optional: rng.chance(1, 5), ty });
            }
            let vararg = if o.exotic && rng.chance(1, 5) { Some(if rng.bool() { Some(gen_leaf(rng, h, &sub)) } else { None }) } else { None };
            let nr = match rng.below(10) {
                0..=2 => 0,
                3..=8 => 1,
                _ => 2,
            };
            let mut rets: Vec<Ty> = (0..nr).map(|_| tvar(rng, h, &sub, &generic)).collect();
            if o.exotic && nr > 0 && rng.chance(1, 6) {
                rets.push(Ty::Variadic(Box::new(Ty::Prim(rng.pick(&["integer", "string", "any"])))));
            }
            Ty::Fun(Box::new(FunTy { is_async: o.exotic && rng.chance(1, 10), generic, params, vararg, rets }))
        }
        _ => {
            let mut gs = h.generic_classes();
            if o.generic_alias {
                // instances of generic aliases are the rarer, more fragile form: half of the time only them
                if rng.bool() {
                    gs = h.generic_aliases();
                } else {
                    gs.extend(h.generic_aliases());
                }
            }
            if gs.is_empty() {
                return gen_leaf(rng, h, o);
            }
            let (n, ar) = gs[rng.below(gs.len())];
            Ty::Generic(n.to_string(), (0..ar).map(|_| gen_type(rng, h, &sub)).collect())
        }
    }
}

fn gen_map_key(rng: &mut Rng, h: &Hier, o: &GenOpts) -> Ty {
    match rng.below(10) {
        0..=3 => Ty::Prim("string"),
        4..=5 => Ty::Prim("integer"),
        6 => Ty::Prim("number"),
        _ => gen_type(rng, h, &GenOpts { depth: o.depth.min(2), ..o.clone() }),
    }
}

// ───────────────────────────── shrinking ─────────────────────────────

/// One-step simplifications of `t`, roughly ordered from most to least aggressive.
pub fn shrink_candidates(t: &Ty) -> Vec<Ty> {
    let mut out: Vec<Ty> = Vec::new();
    // hoist children
    for c in t.children() {
        out.push(c.clone());
    }
    // replace by the simplest leaf
    if *t != Ty::Prim("integer") {
        out.push(Ty::Prim("integer"));
        // second simplest leaf: lets `integer|X` converge to `integer|string`
        if *t != Ty::Prim("string") {
            out.push(Ty::Prim("string"));
        }
    }
    match t {
        Ty::Str(s) => {
            if s != "a" {
                out.push(Ty::Str("a".into()));
            }
            let cs: Vec<char> = s.chars().collect();
            for i in 0..cs.len() {
                let mut v = cs.clone();
                v.remove(i);
                out.push(Ty::Str(v.into_iter().collect()));
            }
            for i in 0..cs.len() {
                if cs[i] != 'a' && cs[i] != 'b' {
                    let mut v = cs.clone();
                    v[i] = 'b';
                    out.push(Ty::Str(v.into_iter().collect()));
                }
            }
        }
        Ty::Int(i) if *i != 1 => {
            out.push(Ty::Int(1));
            if *i < 0 {
                out.push(Ty::Int(-1));
            }
        }
        Ty::Bool(false) => out.push(Ty::Bool(true)),
        Ty::Union(ms) => {
            if ms.len() == 2 && ms.contains(&Ty::Prim("nil")) {
                let other = ms.iter().find(|m| **m != Ty::Prim("nil")).cloned().unwrap_or(Ty::Prim("integer"));
                out.push(Ty::Opt(Box::new(other)));
            }
            for i in 0..ms.len() {
                let mut v = ms.clone();
                v.remove(i);
                out.push(if v.len() == 1 { v.pop().unwrap() } else { Ty::Union(v) });
            }
            for i in 0..ms.len() {
                for c in shrink_candidates(&ms[i]) {
                    if matches!(c, Ty::Union(_)) || ms.contains(&c) {
                        continue;
                    }
                    let mut v = ms.clone();
                    v[i] = c;
                    out.push(Ty::Union(v));
                }
            }
        }
        Ty::Opt(x) => {
            for c in shrink_candidates(x) {
                out.push(Ty::Opt(Box::new(c)));
            }
        }
        Ty::Array(x) => {
            for c in shrink_candidates(x) {
                out.push(Ty::Array(Box::new(c)));
            }
        }
        Ty::Variadic(x) => {
            for c in shrink_candidates(x) {
                if matches!(c, Ty::Prim(_) | Ty::Class(_)) {
                    out.push(Ty::Variadic(Box::new(c)));
                }
            }
        }
        Ty::Tuple(ts) => {
            for i in 0..ts.len() {
                let mut v = ts.clone();
                v.remove(i);
                out.push(Ty::Tuple(v));
            }
            for i in 0..ts.len() {
                for c in shrink_candidates(&ts[i]) {
                    if matches!(c, Ty::Variadic(_)) && i + 1 != ts.len() {
                        continue;
                    }
                    let mut v = ts.clone();
                    v[i] = c;
                    out.push(Ty::Tuple(v));
                }
            }
        }
        Ty::Generic(n, ts) => {
            for i in 0..ts.len() {
                for c in shrink_candidates(&ts[i]) {
                    let mut v = ts.clone();
                    v[i] = c;
                    out.push(Ty::Generic(n.clone(), v));
                }
            }
        }
        Ty::Map(k, v) => {
            for c in shrink_candidates(k) {
                out.push(Ty::Map(Box::new(c), v.clone()));
            }
            for c in shrink_candidates(v) {
                out.push(Ty::Map(k.clone(), Box::new(c)));
            }
        }
        Ty::Record(fs) => {
            for i in 0..fs.len() {
                let mut v = fs.clone();
                v.remove(i);
                out.push(Ty::Record(v));
            }
            for i in 0..fs.len() {
                if fs[i].optional {
                    let mut v = fs.clone();
                    v[i].optional = false;
                    out.push(Ty::Record(v));
                }
                if let FieldKey::Str(k) = &fs[i].key {
                    for c in shrink_candidates(&Ty::Str(k.clone())) {
                        if let Ty::Str(k2) = c {
                            let mut v = fs.clone();
                            v[i].key = FieldKey::Str(k2);
                            if !fs.iter().any(|f| f.key == v[i].key) {
                                out.push(Ty::Record(v));
                            }
                        }
                    }
                }
                if !matches!(fs[i].key, FieldKey::Name(_)) {
                    let mut v = fs.clone();
                    v[i].key = FieldKey::Name("f".into());
                    if !fs.iter().any(|f| f.key == v[i].key) {
                        out.push(Ty::Record(v));
                    }
                }
                for c in shrink_candidates(&fs[i].ty) {
                    let mut v = fs.clone();
                    v[i].ty = c;
                    out.push(Ty::Record(v));
                }
            }
        }
        Ty::Fun(f) => {
            if f.is_async {
                let mut g = f.clone();
                g.is_async = false;
                out.push(Ty::Fun(g));
            }
            if f.vararg.is_some() {
                let mut g = f.clone();
                g.vararg = None;
                out.push(Ty::Fun(g));
            }
            if f.generic.is_some() {
                // dropping the generic parameter is only valid when nothing mentions it
                let mut names = BTreeSet::new();
                for c in t.children() {
                    c.names(&mut names);
                }
                if !names.contains(f.generic.as_ref().unwrap()) {
                    let mut g = f.clone();
                    g.generic = None;
                    out.push(Ty::Fun(g));
                }
            }
            for i in 0..f.params.len() {
                let mut g = f.clone();
                g.params.remove(i);
                out.push(Ty::Fun(g));
            }
            for i in 0..f.rets.len() {
                let mut g = f.clone();
                g.rets.remove(i);
                out.push(Ty::Fun(g));
            }
            for i in 0..f.params.len() {
                if f.params[i].optional {
                    let mut g = f.clone();
                    g.params[i].optional = false;
                    out.push(Ty::Fun(g));
                }
                if let Some(pt) = &f.params[i].ty {
                    for c in shrink_candidates(pt) {
                        let mut g = f.clone();
                        g.params[i].ty = Some(c);
                        out.push(Ty::Fun(g));
                    }
                }
            }
            for i in 0..f.rets.len() {
                for c in shrink_candidates(&f.rets[i]) {
                    if matches!(c, Ty::Variadic(_)) && i + 1 != f.rets.len() {
                        continue;
                    }
                    let mut g = f.clone();
                    g.rets[i] = c;
                    out.push(Ty::Fun(g));
                }
            }
        }
        _ => {}
    }
    // a Variadic may not become the root or a non-last element
    out.retain(|c| !matches!(c, Ty::Variadic(_)) || matches!(t, Ty::Variadic(_)));
    out.dedup();
    out
}

/// Simplicity measure used by `shrink`: (node count, leaf/flag complexity, printed length).
/// `integer` is the simplest leaf, `"a"`/`"b"` the simplest string characters, so that shrunk
/// witnesses of one root cause converge to one shape.
pub fn weight(t: &Ty) -> (usize, usize, usize) {
    (t.nodes(), complexity(t), t.print().len())
}

fn str_complexity(s: &str) -> usize {
    s.chars().map(|c| if c == 'a' || c == 'b' { 2 } else { 3 }).sum::<usize>()
}

fn complexity(t: &Ty) -> usize {
    let own = match t {
        Ty::Prim("integer") => 0,
        Ty::Prim("string") => 1,
        Ty::Prim(_) => 2,
        Ty::Int(1) => 2,
        Ty::Int(-1) => 3,
        Ty::Int(_) => 4,
        Ty::Bool(true) => 2,
        Ty::Bool(false) => 3,
        Ty::Str(s) => 3 + str_complexity(s),
        Ty::Class(_) => 4,
        Ty::Alias(_) | Ty::Enum(_) => 5,
        Ty::Record(fs) => {
            1 + fs
                .iter()
                .map(|f| {
                    (f.optional as usize)
                        + match &f.key {
                            FieldKey::Name(_) => 0,
                            FieldKey::Int(_) => 1,
                            FieldKey::Str(s) => 2 + str_complexity(s),
                            FieldKey::Index(_) => 2,
                        }
                })
                .sum::<usize>()
        }
        Ty::Fun(f) => 1 + f.is_async as usize + f.vararg.is_some() as usize + f.generic.is_some() as usize + f.params.iter().map(|p| p.optional as usize + (p.name == "self") as usize).sum::<usize>(),
        _ => 1,
    };
    own + t.children().iter().map(|c| complexity(c)).sum::<usize>()
}

/// Greedy shrinking: repeatedly take the first strictly simpler candidate that still fails.
pub fn shrink(t: &Ty, mut fails: impl FnMut(&Ty) -> bool, max_tests: usize) -> Ty {
    let mut cur = t.clone();
    let mut tests = 0usize;
    'outer: loop {
        let w = weight(&cur);
        for c in shrink_candidates(&cur) {
            if weight(&c) >= w {
                continue;
            }
            if tests >= max_tests {
                break 'outer;
            }
            tests += 1;
            if fails(&c) {
                cur = c;
                continue 'outer;
            }
        }
        break;
    }
    cur
}

impl Ty {
    /// Bottom-up rewrite of every node.
    pub fn rewrite(&self, f: &dyn Fn(Ty) -> Ty) -> Ty {
        let inner = match self {
            Ty::Union(v) => Ty::Union(v.iter().map(|x| x.rewrite(f)).collect()),
            Ty::Tuple(v) => Ty::Tuple(v.iter().map(|x| x.rewrite(f)).collect()),
            Ty::Generic(n, v) => Ty::Generic(n.clone(), v.iter().map(|x| x.rewrite(f)).collect()),
            Ty::Opt(x) => Ty::Opt(Box::new(x.rewrite(f))),
            Ty::Array(x) => Ty::Array(Box::new(x.rewrite(f))),
            Ty::Variadic(x) => Ty::Variadic(Box::new(x.rewrite(f))),
            Ty::Map(k, v) => Ty::Map(Box::new(k.rewrite(f)), Box::new(v.rewrite(f))),
            Ty::Record(fs) => Ty::Record(
                fs.iter()
                    .map(|fl| Field {
                        key: match &fl.key {
                            FieldKey::Index(k) => FieldKey::Index(k.rewrite(f)),
                            k => k.clone(),
                        },
                        optional: fl.optional,
                        ty: fl.ty.rewrite(f),
                    })
                    .collect(),
            ),
            Ty::Fun(fun) => Ty::Fun(Box::new(FunTy {
                is_async: fun.is_async,
                generic: fun.generic.clone(),
                params: fun.params.iter().map(|p| Param { name: p.name.clone(), optional: p.optional, ty: p.ty.as_ref().map(|t| t.rewrite(f)) }).collect(),
                vararg: fun.vararg.as_ref().map(|v| v.as_ref().map(|t| t.rewrite(f))),
                rets: fun.rets.iter().map(|t| t.rewrite(f)).collect(),
            })),
            x => x.clone(),
        };
        f(inner)
    }

    /// Plain alias references replaced by the alias bodies (aliases are not recursive).
    pub fn inline_aliases(&self, h: &Hier) -> Ty {
        let mut cur = self.clone();
        for _ in 0..8 {
            let next = cur.rewrite(&|t| match &t {
                Ty::Alias(n) => h.aliases.iter().find(|a| a.name == *n && a.tparams.is_empty()).map(|a| a.ty.clone()).unwrap_or(t),
                _ => t,
            });
            if next == cur {
                break;
            }
            cur = next;
        }
        cur
    }
}

/// `shrink`, then — when the witness still hides behind an alias — inline the alias bodies and
/// shrink again, so that a root cause reached through an alias converges to the same witness.
pub fn shrink_h(t: &Ty, h: &Hier, mut fails: impl FnMut(&Ty) -> bool, max_tests: usize) -> Ty {
    let small = shrink(t, &mut fails, max_tests);
    let mut names = BTreeSet::new();
    small.names(&mut names);
    if !h.aliases.iter().any(|a| a.tparams.is_empty() && names.contains(&a.name)) {
        return small;
    }
    let inl = small.inline_aliases(h);
    if inl != small && fails(&inl) {
        return shrink(&inl, &mut fails, max_tests);
    }
    small
}

// ───────────────────────────── canonical form of real LuaTypes ─────────────────────────────

#[derive(Clone, Debug, PartialEq, Eq, Hash, PartialOrd, Ord)]
pub enum Canon {
    Prim(&'static str),
    /// (value, came from an annotation)
    Str(String, bool),
    Int(i64, bool),
    Bool(bool, bool),
    Float(u64),
    Ref(String),
    Arr(Box<Canon>),
    Tup(Vec<Canon>),
    /// table<...>
    Map(Vec<Canon>),
    /// sorted named/int fields, index signatures
    Obj(Vec<(String, Canon)>, Vec<(Canon, Canon)>),
    Fun { is_async: bool, colon: bool, variadic: bool, params: Vec<(String, Option<Canon>)>, ret: Box<Canon> },
    Gen(String, Vec<Canon>),
    Var(Box<Canon>),
    VarMulti(Vec<Canon>),
    /// sorted, de-duplicated, flattened, ≥ 2 members
    Union(Vec<Canon>),
    Opaque(String),
}

pub fn mk_union(ms: Vec<Canon>) -> Canon {
    let mut set: BTreeSet<Canon> = BTreeSet::new();
    for m in ms {
        match m {
            Canon::Union(inner) => set.extend(inner),
            m => {
                set.insert(m);
            }
        }
    }
    let mut v: Vec<Canon> = set.into_iter().collect();
    match v.len() {
        0 => Canon::Prim("never"),
        1 => v.pop().unwrap(),
        _ => Canon::Union(v),
    }
}

/// `strict` keeps the distinction between annotation literals and inferred literals and between
/// `Def` and `Ref` (needed when two *results of the same operation* are compared, C16 union clause).
pub fn canon(t: &LuaType, strict: bool) -> Canon {
    let doc = |d: bool| if strict { d } else { true };
    match t {
        LuaType::Unknown => Canon::Prim("unknown"),
        LuaType::Any => Canon::Prim("any"),
        LuaType::Nil => Canon::Prim("nil"),
        LuaType::Table => Canon::Prim("table"),
        LuaType::TableConst(_) => {
            if strict {
                Canon::Opaque("tableconst".into())
            } else {
                Canon::Prim("table")
            }
        }
        LuaType::Userdata => Canon::Prim("userdata"),
        LuaType::Function => Canon::Prim("function"),
        LuaType::Thread => Canon::Prim("thread"),
        LuaType::Boolean => Canon::Prim("boolean"),
        LuaType::String => Canon::Prim("string"),
        LuaType::Integer => Canon::Prim("integer"),
        LuaType::Number => Canon::Prim("number"),
        LuaType::Io => Canon::Prim("io"),
        LuaType::SelfInfer => Canon::Prim("self"),
        LuaType::Global => Canon::Prim("global"),
        LuaType::Never => Canon::Prim("never"),
        LuaType::BooleanConst(b) => Canon::Bool(*b, doc(false)),
        LuaType::DocBooleanConst(b) => Canon::Bool(*b, true),
        LuaType::StringConst(s) => Canon::Str(s.to_string(), doc(false)),
        LuaType::DocStringConst(s) => Canon::Str(s.to_string(), true),
        LuaType::IntegerConst(i) => Canon::Int(*i, doc(false)),
        LuaType::DocIntegerConst(i) => Canon::Int(*i, true),
        LuaType::FloatConst(f) => Canon::Float(f.to_bits()),
        LuaType::Ref(id) => Canon::Ref(id.get_name().to_string()),
        LuaType::Def(id) => {
            if strict {
                Canon::Opaque(format!("def:{}", id.get_name()))
            } else {
                Canon::Ref(id.get_name().to_string())
            }
        }
        LuaType::Array(a) => Canon::Arr(Box::new(canon(a.get_base(), strict))),
        LuaType::Tuple(tp) => Canon::Tup(tp.get_types().iter().map(|x| canon(x, strict)).collect()),
        LuaType::TableGeneric(ps) => Canon::Map(ps.iter().map(|x| canon(x, strict)).collect()),
        LuaType::Object(o) => {
            let mut fs: Vec<(String, Canon)> = o
                .get_fields()
                .iter()
                .map(|(k, v)| {
                    let ks = match k {
                        LuaMemberKey::Name(n) => format!("n:{n}"),
                        LuaMemberKey::Integer(i) => format!("i:{i}"),
                        LuaMemberKey::None => "none".to_string(),
                        LuaMemberKey::TypeKey(t) => format!("t:{:?}", canon(t, strict)),
                    };
                    (ks, canon(v, strict))
                })
                .collect();
            fs.sort();
            let mut ix: Vec<(Canon, Canon)> = o.get_index_access().iter().map(|(k, v)| (canon(k, strict), canon(v, strict))).collect();
            ix.sort();
            Canon::Obj(fs, ix)
        }
        LuaType::Union(u) => mk_union(u.into_vec().iter().map(|x| canon(x, strict)).collect()),
        LuaType::MultiLineUnion(m) => mk_union(m.get_unions().iter().map(|(x, _)| canon(x, strict)).collect()),
        LuaType::DocFunction(f) => Canon::Fun {
            is_async: matches!(f.get_async_state(), AsyncState::Async),
            colon: f.is_colon_define(),
            variadic: f.is_variadic(),
            params: f.get_params().iter().map(|(n, t)| (n.clone(), t.as_ref().map(|x| canon(x, strict)))).collect(),
            ret: Box::new(canon(f.get_ret(), strict)),
        },
        LuaType::Generic(g) => Canon::Gen(g.get_base_type_id_ref().get_name().to_string(), g.get_params().iter().map(|x| canon(x, strict)).collect()),
        LuaType::Variadic(v) => match &**v {
            VariadicType::Base(b) => Canon::Var(Box::new(canon(b, strict))),
            VariadicType::Multi(ms) => Canon::VarMulti(ms.iter().map(|x| canon(x, strict)).collect()),
        },
        LuaType::Instance(i) => canon(i.get_base(), strict),
        LuaType::TplRef(tpl) => Canon::Opaque(format!("tpl:{}", tpl.get_name())),
        LuaType::StrTplRef(_) => Canon::Opaque("strtpl".into()),
        LuaType::Signature(_) => Canon::Opaque("signature".into()),
        LuaType::Intersection(_) => Canon::Opaque("intersection".into()),
        LuaType::Namespace(_) => Canon::Opaque("namespace".into()),
        LuaType::Call(_) => Canon::Opaque("call".into()),
        LuaType::TypeGuard(_) => Canon::Opaque("typeguard".into()),
        LuaType::Language(_) => Canon::Opaque("language".into()),
        LuaType::ModuleRef(_) => Canon::Opaque("moduleref".into()),
        LuaType::Conditional(_) => Canon::Opaque("conditional".into()),
        LuaType::Mapped(_) => Canon::Opaque("mapped".into()),
    }
}

impl Canon {
    pub fn children(&self) -> Vec<&Canon> {
        match self {
            Canon::Arr(x) | Canon::Var(x) => vec![x],
            Canon::Tup(v) | Canon::Map(v) | Canon::Gen(_, v) | Canon::VarMulti(v) | Canon::Union(v) => v.iter().collect(),
            Canon::Obj(fs, ix) => {
                let mut o: Vec<&Canon> = fs.iter().map(|(_, v)| v).collect();
                for (k, v) in ix {
                    o.push(k);
                    o.push(v);
                }
                o
            }
            Canon::Fun { params, ret, .. } => {
                let mut o: Vec<&Canon> = params.iter().filter_map(|(_, t)| t.as_ref()).collect();
                o.push(ret);
                o
            }
            _ => vec![],
        }
    }
    pub fn nodes(&self) -> usize {
        1 + self.children().iter().map(|c| c.nodes()).sum::<usize>()
    }
    pub fn any(&self, f: &dyn Fn(&Canon) -> bool) -> bool {
        f(self) || self.children().iter().any(|c| c.any(f))
    }
    /// `table<...>` with a number of parameters other than two (only arises from a mis-lexed annotation)
    pub fn malformed(&self) -> bool {
        self.any(&|c| matches!(c, Canon::Map(v) if v.len() != 2))
    }
    pub fn has_opaque(&self) -> bool {
        self.any(&|c| matches!(c, Canon::Opaque(_)))
    }
    pub fn has_prim(&self, p: &str) -> bool {
        self.any(&|c| matches!(c, Canon::Prim(q) if *q == p))
    }
    pub fn members(&self) -> Vec<Canon> {
        match self {
            Canon::Union(v) => v.clone(),
            x => vec![x.clone()],
        }
    }

    /// Bottom-up rewrite; unions are re-normalised.
    pub fn map(&self, f: &dyn Fn(Canon) -> Canon) -> Canon {
        let inner = match self {
            Canon::Arr(x) => Canon::Arr(Box::new(x.map(f))),
            Canon::Var(x) => Canon::Var(Box::new(x.map(f))),
            Canon::Tup(v) => Canon::Tup(v.iter().map(|x| x.map(f)).collect()),
            Canon::Map(v) => Canon::Map(v.iter().map(|x| x.map(f)).collect()),
            Canon::VarMulti(v) => Canon::VarMulti(v.iter().map(|x| x.map(f)).collect()),
            Canon::Gen(n, v) => Canon::Gen(n.clone(), v.iter().map(|x| x.map(f)).collect()),
            Canon::Union(v) => mk_union(v.iter().map(|x| x.map(f)).collect()),
            Canon::Obj(fs, ix) => {
                let mut ix2: Vec<(Canon, Canon)> = ix.iter().map(|(k, v)| (k.map(f), v.map(f))).collect();
                ix2.sort();
                Canon::Obj(fs.iter().map(|(k, v)| (k.clone(), v.map(f))).collect(), ix2)
            }
            Canon::Fun { is_async, colon, variadic, params, ret } => Canon::Fun {
                is_async: *is_async,
                colon: *colon,
                variadic: *variadic,
                params: params.iter().map(|(n, t)| (n.clone(), t.as_ref().map(|x| x.map(f)))).collect(),
                ret: Box::new(ret.map(f)),
            },
            x => x.clone(),
        };
        match f(inner) {
            Canon::Union(v) => mk_union(v),
            x => x,
        }
    }

    /// Every literal replaced by its base type (`"a"` → string, `1` → integer, `true` → boolean).
    pub fn widen(&self) -> Canon {
        self.map(&|c| match c {
            Canon::Str(..) => Canon::Prim("string"),
            Canon::Int(..) => Canon::Prim("integer"),
            Canon::Bool(..) => Canon::Prim("boolean"),
            Canon::Float(_) => Canon::Prim("number"),
            x => x,
        })
    }

    /// Alias references replaced by their (already canonical, already expanded) origin.
    pub fn expand(&self, aliases: &BTreeMap<String, Canon>) -> Canon {
        self.map(&|c| match &c {
            Canon::Ref(n) => aliases.get(n).cloned().unwrap_or(c),
            _ => c,
        })
    }

    /// `any | X` → `any` (what `TypeOps::Union` does; an annotation `X|any` keeps both members)
    pub fn absorb_any(&self) -> Canon {
        self.map(&|c| match &c {
            Canon::Union(v) if v.contains(&Canon::Prim("any")) => Canon::Prim("any"),
            _ => c,
        })
    }

    pub fn show(&self) -> String {
        match self {
            Canon::Prim(p) => p.to_string(),
            Canon::Str(s, d) => format!("{}{}", escape_str(s, '"'), if *d { "" } else { "~" }),
            Canon::Int(i, d) => format!("{i}{}", if *d { "" } else { "~" }),
            Canon::Bool(b, d) => format!("{b}{}", if *d { "" } else { "~" }),
            Canon::Float(bits) => format!("{:?}", f64::from_bits(*bits)),
            Canon::Ref(n) => n.clone(),
            Canon::Arr(x) => format!("({})[]", x.show()),
            Canon::Tup(v) => format!("[{}]", v.iter().map(|x| x.show()).collect::<Vec<_>>().join(", ")),
            Canon::Map(v) => format!("table<{}>", v.iter().map(|x| x.show()).collect::<Vec<_>>().join(", ")),
            Canon::Obj(fs, ix) => {
                let mut parts: Vec<String> = fs.iter().map(|(k, v)| format!("{k}: {}", v.show())).collect();
                parts.extend(ix.iter().map(|(k, v)| format!("[{}]: {}", k.show(), v.show())));
                format!("{{{}}}", parts.join(", "))
            }
            Canon::Fun { is_async, colon, variadic, params, ret } => format!(
                "{}fun{}{}({}): {}",
                if *is_async { "async " } else { "" },
                if *colon { ":" } else { "" },
                if *variadic { "~va" } else { "" },
                params.iter().map(|(n, t)| format!("{n}: {}", t.as_ref().map(|x| x.show()).unwrap_or_else(|| "_".into()))).collect::<Vec<_>>().join(", "),
                ret.show()
            ),
            Canon::Gen(n, v) => format!("{n}<{}>", v.iter().map(|x| x.show()).collect::<Vec<_>>().join(", ")),
            Canon::Var(x) => format!("{}...", x.show()),
            Canon::VarMulti(v) => format!("multi({})", v.iter().map(|x| x.show()).collect::<Vec<_>>().join(", ")),
            Canon::Union(v) => format!("({})", v.iter().map(|x| x.show()).collect::<Vec<_>>().join(" | ")),
            Canon::Opaque(s) => format!("<{s}>"),
        }
    }
}

// ───────────────────────────── workspace helper ─────────────────────────────

/// A `VirtualWorkspace` (the repository's public test helper) holding one hierarchy definition
/// file; evaluates many `---@type` annotations per virtual file.
pub struct TypeWs {
    pub ws: VirtualWorkspace,
    pub files: usize,
}

impl TypeWs {
    pub fn new(defs: &str) -> TypeWs {
        let mut ws = VirtualWorkspace::new();
        if !defs.is_empty() {
            ws.def(defs);
        }
        TypeWs { ws, files: 1 }
    }

    /// `---@type <repr>\nlocal tN` for every repr in one file; returns the declared types in order.
    /// An entry is `None` when the local could not be found / has no semantic info.
    pub fn types(&mut self, reprs: &[String]) -> Vec<Option<LuaType>> {
        let mut text = String::new();
        for (i, r) in reprs.iter().enumerate() {
            text.push_str("---@type ");
            text.push_str(r);
            text.push_str(&format!("\nlocal t{i}\n"));
        }
        let file_id = self.ws.def(&text);
        self.files += 1;
        let mut out: Vec<Option<LuaType>> = vec![None; reprs.len()];
        for (name, ty) in self.local_types(file_id) {
            if let Some(ix) = name.strip_prefix('t').and_then(|n| n.parse::<usize>().ok()) {
                if ix < out.len() {
                    out[ix] = Some(ty);
                }
            }
        }
        out
    }

    pub fn ty(&mut self, repr: &str) -> Option<LuaType> {
        self.types(&[repr.to_string()]).pop().flatten()
    }

    /// (local name, type) for every `local` name declared in the file, in source order.
    pub fn local_types(&self, file_id: FileId) -> Vec<(String, LuaType)> {
        let mut out = Vec::new();
        let Some(model) = self.ws.analysis.compilation.get_semantic_model(file_id) else {
            return out;
        };
        let root = model.get_root();
        for ln in root.descendants::<LuaLocalName>() {
            let Some(tok) = ln.get_name_token() else { continue };
            let name = tok.get_name_text().to_string();
            if let Some(info) = model.get_semantic_info(tok.syntax().clone().into()) {
                out.push((name, info.typ));
            }
        }
        out
    }

    /// plain alias name -> fully expanded canonical origin, computed from the *real* types of the
    /// alias bodies (aliases may mention earlier aliases only)
    pub fn alias_map(&mut self, hier: &Hier) -> BTreeMap<String, Canon> {
        let mut m = BTreeMap::new();
        for a in &hier.aliases {
            if !a.tparams.is_empty() {
                continue;
            }
            if let Some(t) = self.ty(&a.ty.print()) {
                let c = canon(&t, false).expand(&m);
                m.insert(a.name.clone(), c);
            }
        }
        m
    }

    pub fn def(&mut self, text: &str) -> FileId {
        self.files += 1;
        self.ws.def(text)
    }

    pub fn check(&self, expected: &LuaType, actual: &LuaType) -> bool {
        self.ws.check_type(expected, actual)
    }

    pub fn render(&self, t: &LuaType) -> String {
        humanize_type(self.ws.analysis.compilation.get_db(), t, RenderLevel::Documentation)
    }

    /// 0-based lines carrying a diagnostic with this code.
    pub fn diag_lines(&mut self, file_id: FileId, code: DiagnosticCode) -> Option<Vec<(u32, String)>> {
        self.ws.analysis.diagnostic.enable_only(code);
        let ds = self.ws.analysis.diagnose_file(file_id, tokio_util::sync::CancellationToken::new())?;
        let want = code.get_name().to_string();
        let mut out = Vec::new();
        for d in ds {
            let is = match &d.code {
                Some(lsp_types::NumberOrString::String(s)) => *s == want,
                _ => false,
            };
            if is {
                out.push((d.range.start.line, d.message.clone()));
            }
        }
        Some(out)
    }
}
