//! G-flow / G-loop: programs in the fragment of C15 / C41 with probe points.
//!
//! Fragment (C15): locals initialised with literals of every basic type, reassignments (literal
//! or another local), `if / elseif / else` over guards built from `type(x) == "…"`, `x == nil`,
//! `x ~= nil`, truthiness, `not`, `and`, `or` (and immutable condition aliases
//! `local c = x ~= nil`). G-loop (C41) adds `while`, `repeat`, numeric and generic `for`, all
//! bounded by counters / literal bounds, conditional `break`, zero-iteration cases, and the
//! "exit condition guarantees non-nil" templates followed by a use site.
//!
//! Every program is deterministic and closed (no input), so one execution is *the* execution.
//! Owned by the C13/C15/C41 family.

use crate::rng::Rng;
use std::collections::{BTreeMap, BTreeSet};

pub const VARS: [&str; 4] = ["x", "y", "z", "w"];
pub const TYPE_NAMES: [&str; 6] = ["nil", "boolean", "number", "string", "table", "function"];
pub const ODD_TYPE_NAMES: [&str; 4] = ["integer", "userdata", "thread", "float"];

#[derive(Clone, Copy, Debug, PartialEq)]
pub enum Lit {
    Nil,
    True,
    False,
    Int(i64),
    Float,
    Str(u8),
    Table,
    Func,
}

impl Lit {
    pub fn text(&self) -> String {
        match self {
            Lit::Nil => "nil".into(),
            Lit::True => "true".into(),
            Lit::False => "false".into(),
            Lit::Int(i) => i.to_string(),
            Lit::Float => "1.5".into(),
            Lit::Str(i) => ["\"s\"", "\"\"", "'number'"][*i as usize % 3].into(),
            Lit::Table => "{}".into(),
            Lit::Func => "function() end".into(),
        }
    }
    pub fn lua_type(&self) -> &'static str {
        match self {
            Lit::Nil => "nil",
            Lit::True | Lit::False => "boolean",
            Lit::Int(_) | Lit::Float => "number",
            Lit::Str(_) => "string",
            Lit::Table => "table",
            Lit::Func => "function",
        }
    }
    pub fn truthy(&self) -> bool {
        !matches!(self, Lit::Nil | Lit::False)
    }
}

#[derive(Clone, Debug, PartialEq)]
pub enum Rhs {
    Lit(Lit),
    Var(u8),
}

#[derive(Clone, Debug, PartialEq)]
pub enum Cond {
    Truthy(u8),
    EqNil { var: u8, neg: bool, swapped: bool },
    TypeIs { var: u8, ty: &'static str, neg: bool, swapped: bool },
    Alias(u8),
    Not(Box<Cond>),
    And(Box<Cond>, Box<Cond>),
    Or(Box<Cond>, Box<Cond>),
    /// `nK < lim` (loop counters; G-loop only)
    CounterLt(u8, i64),
    /// `nK >= lim`
    CounterGe(u8, i64),
    /// literal `true` (only as a `while true` condition)
    LitTrue,
}

impl Cond {
    pub fn vars(&self, out: &mut BTreeSet<u8>) {
        match self {
            Cond::Truthy(v) | Cond::EqNil { var: v, .. } | Cond::TypeIs { var: v, .. } => {
                out.insert(*v);
            }
            Cond::Not(c) => c.vars(out),
            Cond::And(a, b) | Cond::Or(a, b) => {
                a.vars(out);
                b.vars(out);
            }
            _ => {}
        }
    }
    pub fn aliases(&self, out: &mut BTreeSet<u8>) {
        match self {
            Cond::Alias(a) => {
                out.insert(*a);
            }
            Cond::Not(c) => c.aliases(out),
            Cond::And(a, b) | Cond::Or(a, b) => {
                a.aliases(out);
                b.aliases(out);
            }
            _ => {}
        }
    }
    pub fn counters(&self, out: &mut BTreeSet<u8>) {
        match self {
            Cond::CounterLt(c, _) | Cond::CounterGe(c, _) => {
                out.insert(*c);
            }
            Cond::Not(c) => c.counters(out),
            Cond::And(a, b) | Cond::Or(a, b) => {
                a.counters(out);
                b.counters(out);
            }
            _ => {}
        }
    }
    /// structural shape tags (no variable names, no concrete type names)
    pub fn shape(&self) -> String {
        match self {
            Cond::Truthy(_) => "truthy".into(),
            Cond::EqNil { neg: false, .. } => "eq-nil".into(),
            Cond::EqNil { neg: true, .. } => "ne-nil".into(),
            Cond::TypeIs { ty, neg, .. } => {
                let odd = ODD_TYPE_NAMES.contains(ty);
                format!("type-{}{}", if *neg { "ne" } else { "eq" }, if odd { "-odd" } else { "" })
            }
            Cond::Alias(_) => "alias".into(),
            Cond::Not(c) => format!("not({})", c.shape()),
            Cond::And(a, b) => format!("and({},{})", a.shape(), b.shape()),
            Cond::Or(a, b) => format!("or({},{})", a.shape(), b.shape()),
            Cond::CounterLt(..) | Cond::CounterGe(..) => "counter".into(),
            Cond::LitTrue => "true".into(),
        }
    }
    fn text(&self) -> String {
        match self {
            Cond::Truthy(v) => VARS[*v as usize].into(),
            Cond::EqNil { var, neg, swapped } => {
                let op = if *neg { "~=" } else { "==" };
                if *swapped { format!("nil {op} {}", VARS[*var as usize]) } else { format!("{} {op} nil", VARS[*var as usize]) }
            }
            Cond::TypeIs { var, ty, neg, swapped } => {
                let op = if *neg { "~=" } else { "==" };
                if *swapped { format!("\"{ty}\" {op} type({})", VARS[*var as usize]) } else { format!("type({}) {op} \"{ty}\"", VARS[*var as usize]) }
            }
            Cond::Alias(a) => format!("c{a}"),
            Cond::Not(c) => match **c {
                Cond::Truthy(_) | Cond::Alias(_) => format!("not {}", c.text()),
                _ => format!("not ({})", c.text()),
            },
            Cond::And(a, b) => format!("{} and {}", Self::operand(a), Self::operand(b)),
            Cond::Or(a, b) => format!("{} or {}", Self::operand(a), Self::operand(b)),
            Cond::CounterLt(c, k) => format!("n{c} < {k}"),
            Cond::CounterGe(c, k) => format!("n{c} >= {k}"),
            Cond::LitTrue => "true".into(),
        }
    }
    fn operand(c: &Cond) -> String {
        match c {
            Cond::And(..) | Cond::Or(..) => format!("({})", c.text()),
            _ => c.text(),
        }
    }
}

#[derive(Clone, Copy, Debug, PartialEq)]
pub enum UseForm {
    /// `local _ = v + 1`
    Arith,
    /// `v()`
    Call,
    /// `local _ = v.f`
    Index,
    /// `local _ = v:upper()`
    Method,
}

#[derive(Clone, Debug, PartialEq)]
pub enum Bound {
    Lit(i64),
    /// `mK` — a local holding the bound (not a literal, so the analyzer cannot fold it)
    Local(u8),
}

#[derive(Clone, Debug, PartialEq)]
pub struct Stmt {
    pub sid: u32,
    pub kind: K,
}

#[derive(Clone, Debug, PartialEq)]
pub enum K {
    Local { vars: Vec<u8>, inits: Vec<Rhs> },
    Assign { vars: Vec<u8>, rhss: Vec<Rhs> },
    AliasDef { alias: u8, cond: Cond },
    If { arms: Vec<(Cond, Vec<Stmt>)>, els: Option<Vec<Stmt>> },
    Do(Vec<Stmt>),
    Probe { k: u32, var: u8 },
    CounterDef(u8),
    CounterInc(u8),
    BoundDef(u8, i64),
    While { cond: Cond, body: Vec<Stmt> },
    Repeat { body: Vec<Stmt>, cond: Cond },
    NumFor { from: i64, to: Bound, step: Option<i64>, body: Vec<Stmt> },
    GenFor { iter: &'static str, table: &'static str, body: Vec<Stmt> },
    Break,
    /// probe + use site; `guaranteed` = the preceding loop's exit condition statically
    /// guarantees that `var` is not nil (and has the type the use form needs)
    Use { k: u32, var: u8, form: UseForm, guaranteed: bool },
}

#[derive(Clone, Debug, PartialEq)]
pub struct Program {
    pub body: Vec<Stmt>,
}

// ───────────────────────────── printer ─────────────────────────────

#[derive(Clone, Debug)]
pub struct ProbeSite {
    pub k: u32,
    pub var: u8,
    /// byte offset of the variable token inside `__probe(k, var)`
    pub offset: usize,
    /// guard shapes on the path from the chunk to the probe, e.g. ["then:type-eq", "else:truthy"]
    pub path: Vec<String>,
    /// number of enclosing loops
    pub loop_depth: u32,
    /// kinds of all loops that *ended* textually before the probe
    pub after_loops: Vec<&'static str>,
}

#[derive(Clone, Debug)]
pub struct UseSite {
    pub k: u32,
    pub var: u8,
    pub form: UseForm,
    pub guaranteed: bool,
    /// 0-based line of the use statement
    pub line: u32,
    /// 0-based column of the variable token in that line
    pub col: u32,
    /// kind of the loop right before it
    pub loop_kind: &'static str,
}

#[derive(Clone, Debug, Default)]
pub struct Printed {
    pub text: String,
    pub probes: Vec<ProbeSite>,
    pub uses: Vec<UseSite>,
}

struct Pr {
    out: Printed,
    ind: usize,
    path: Vec<String>,
    loop_depth: u32,
    seen_loops: Vec<&'static str>,
    last_loop: &'static str,
    iter_marks: bool,
}

fn rhs_text(r: &Rhs) -> String {
    match r {
        Rhs::Lit(l) => l.text(),
        Rhs::Var(v) => VARS[*v as usize].to_string(),
    }
}

pub fn loop_kind(k: &K) -> Option<&'static str> {
    match k {
        K::While { .. } => Some("while"),
        K::Repeat { .. } => Some("repeat"),
        K::NumFor { .. } => Some("numeric-for"),
        K::GenFor { .. } => Some("generic-for"),
        _ => None,
    }
}

impl Pr {
    fn line(&mut self, s: &str) {
        for _ in 0..self.ind {
            self.out.text.push_str("  ");
        }
        self.out.text.push_str(s);
        self.out.text.push('\n');
    }
    fn cur_line(&self) -> u32 {
        self.out.text.bytes().filter(|b| *b == b'\n').count() as u32
    }
    fn probe(&mut self, k: u32, var: u8) {
        for _ in 0..self.ind {
            self.out.text.push_str("  ");
        }
        self.out.text.push_str(&format!("__probe({k}, "));
        let offset = self.out.text.len();
        self.out.text.push_str(VARS[var as usize]);
        self.out.text.push_str(")\n");
        self.out.probes.push(ProbeSite { k, var, offset, path: self.path.clone(), loop_depth: self.loop_depth, after_loops: self.seen_loops.clone() });
    }
    fn block(&mut self, b: &[Stmt], tag: Option<String>, is_loop: Option<(&'static str, u32)>) {
        self.ind += 1;
        if let Some(t) = &tag {
            self.path.push(t.clone());
        }
        if let Some((_kind, sid)) = is_loop {
            self.loop_depth += 1;
            if self.iter_marks {
                self.line(&format!("__probe({}, nil)", 1_000_000 + sid));
            }
        }
        for s in b {
            self.stmt(s);
        }
        if is_loop.is_some() {
            self.loop_depth -= 1;
        }
        if tag.is_some() {
            self.path.pop();
        }
        self.ind -= 1;
    }
    fn stmt(&mut self, s: &Stmt) {
        match &s.kind {
            K::Local { vars, inits } => {
                let names: Vec<&str> = vars.iter().map(|v| VARS[*v as usize]).collect();
                if inits.is_empty() {
                    self.line(&format!("local {}", names.join(", ")));
                } else {
                    let vals: Vec<String> = inits.iter().map(rhs_text).collect();
                    self.line(&format!("local {} = {}", names.join(", "), vals.join(", ")));
                }
            }
            K::Assign { vars, rhss } => {
                let names: Vec<&str> = vars.iter().map(|v| VARS[*v as usize]).collect();
                let vals: Vec<String> = rhss.iter().map(rhs_text).collect();
                self.line(&format!("{} = {}", names.join(", "), vals.join(", ")));
            }
            K::AliasDef { alias, cond } => self.line(&format!("local c{alias} = {}", cond.text())),
            K::If { arms, els } => {
                let mut neg: Vec<String> = Vec::new();
                for (i, (c, b)) in arms.iter().enumerate() {
                    self.line(&format!("{} {} then", if i == 0 { "if" } else { "elseif" }, c.text()));
                    let mut tag = String::new();
                    for n in &neg {
                        tag.push_str(&format!("else:{n}/"));
                    }
                    tag.push_str(&format!("then:{}", c.shape()));
                    self.block(b, Some(tag), None);
                    neg.push(c.shape());
                }
                if let Some(b) = els {
                    self.line("else");
                    let tag = neg.iter().map(|n| format!("else:{n}")).collect::<Vec<_>>().join("/");
                    self.block(b, Some(tag), None);
                }
                self.line("end");
            }
            K::Do(b) => {
                self.line("do");
                self.block(b, None, None);
                self.line("end");
            }
            K::Probe { k, var } => self.probe(*k, *var),
            K::CounterDef(c) => self.line(&format!("local n{c} = 0")),
            K::CounterInc(c) => self.line(&format!("n{c} = n{c} + 1")),
            K::BoundDef(m, v) => self.line(&format!("local m{m} = {v}")),
            K::While { cond, body } => {
                self.line(&format!("while {} do", cond.text()));
                self.block(body, Some(format!("while:{}", cond.shape())), Some(("while", s.sid)));
                self.line("end");
                self.seen_loops.push("while");
                self.last_loop = "while";
            }
            K::Repeat { body, cond } => {
                self.line("repeat");
                self.block(body, Some("repeat".into()), Some(("repeat", s.sid)));
                self.line(&format!("until {}", cond.text()));
                self.seen_loops.push("repeat");
                self.last_loop = "repeat";
            }
            K::NumFor { from, to, step, body } => {
                let to = match to {
                    Bound::Lit(k) => k.to_string(),
                    Bound::Local(m) => format!("m{m}"),
                };
                let st = step.map(|s| format!(", {s}")).unwrap_or_default();
                self.line(&format!("for i = {from}, {to}{st} do"));
                self.block(body, Some("numeric-for".into()), Some(("numeric-for", s.sid)));
                self.line("end");
                self.seen_loops.push("numeric-for");
                self.last_loop = "numeric-for";
            }
            K::GenFor { iter, table, body } => {
                self.line(&format!("for _, e in {iter}({table}) do"));
                self.block(body, Some("generic-for".into()), Some(("generic-for", s.sid)));
                self.line("end");
                self.seen_loops.push("generic-for");
                self.last_loop = "generic-for";
            }
            K::Break => self.line("break"),
            K::Use { k, var, form, guaranteed } => {
                self.probe(*k, *var);
                let line = self.cur_line();
                let v = VARS[*var as usize];
                let t = match form {
                    UseForm::Arith => format!("local _ = {v} + 1"),
                    UseForm::Call => format!("{v}()"),
                    UseForm::Index => format!("local _ = {v}.f"),
                    UseForm::Method => format!("local _ = {v}:upper()"),
                };
                self.line(&t);
                let col = (self.ind * 2) as u32 + if matches!(form, UseForm::Call) { 0 } else { 10 };
                self.out.uses.push(UseSite { k: *k, var: *var, form: *form, guaranteed: *guaranteed, line, col, loop_kind: self.last_loop });
            }
        }
    }
}

/// Print the program. With `iter_marks`, every loop body starts with `__probe(1000000+sid, nil)`
/// (used only for a separate luars run that counts iterations; never analysed).
pub fn print(p: &Program, iter_marks: bool) -> Printed {
    let mut pr = Pr { out: Printed::default(), ind: 0, path: vec![], loop_depth: 0, seen_loops: vec![], last_loop: "none", iter_marks };
    for s in &p.body {
        pr.stmt(s);
    }
    pr.out
}

// ───────────────────────────── generator ─────────────────────────────

struct Gen<'a> {
    rng: &'a mut Rng,
    next_sid: u32,
    next_k: u32,
    next_alias: u8,
    next_counter: u8,
    next_bound: u8,
    /// visible aliases per block
    aliases: Vec<Vec<u8>>,
    budget: i32,
    loops: bool,
    in_loop: u32,
}

impl<'a> Gen<'a> {
    fn sid(&mut self) -> u32 {
        self.next_sid += 1;
        self.next_sid
    }
    fn st(&mut self, kind: K) -> Stmt {
        Stmt { sid: self.sid(), kind }
    }
    fn var(&mut self) -> u8 {
        match self.rng.below(10) {
            0..=4 => 0,
            5..=7 => 1,
            8 => 2,
            _ => 3,
        }
    }
    fn lit(&mut self) -> Lit {
        match self.rng.below(16) {
            0..=2 => Lit::Nil,
            3 => Lit::True,
            4..=5 => Lit::False,
            6..=7 => Lit::Int(self.rng.below(3) as i64),
            8 => Lit::Float,
            9..=11 => Lit::Str(self.rng.below(3) as u8),
            12..=13 => Lit::Table,
            _ => Lit::Func,
        }
    }
    fn rhs(&mut self) -> Rhs {
        if self.rng.chance(1, 6) { Rhs::Var(self.var()) } else { Rhs::Lit(self.lit()) }
    }
    fn probe(&mut self, var: u8) -> Stmt {
        self.next_k += 1;
        let k = self.next_k;
        self.st(K::Probe { k, var })
    }
    fn atom(&mut self) -> Cond {
        let var = self.var();
        let visible: Vec<u8> = self.aliases.iter().flatten().copied().collect();
        match self.rng.below(20) {
            0..=3 => Cond::Truthy(var),
            4..=5 => Cond::Not(Box::new(Cond::Truthy(var))),
            6..=7 => Cond::EqNil { var, neg: false, swapped: self.rng.chance(1, 6) },
            8..=9 => Cond::EqNil { var, neg: true, swapped: self.rng.chance(1, 6) },
            10..=14 => Cond::TypeIs { var, ty: self.rng.pick(&TYPE_NAMES), neg: false, swapped: self.rng.chance(1, 8) },
            15..=16 => Cond::TypeIs { var, ty: self.rng.pick(&TYPE_NAMES), neg: true, swapped: self.rng.chance(1, 8) },
            17 => Cond::TypeIs { var, ty: self.rng.pick(&ODD_TYPE_NAMES), neg: self.rng.chance(1, 3), swapped: false },
            _ => {
                if visible.is_empty() {
                    Cond::Truthy(var)
                } else {
                    Cond::Alias(self.rng.pick(&visible))
                }
            }
        }
    }
    fn cond(&mut self, depth: u32) -> Cond {
        if depth == 0 || self.rng.chance(3, 5) {
            return self.atom();
        }
        match self.rng.below(5) {
            0 => Cond::Not(Box::new(self.cond(depth - 1))),
            1..=2 => Cond::And(Box::new(self.cond(depth - 1)), Box::new(self.cond(depth - 1))),
            _ => Cond::Or(Box::new(self.cond(depth - 1)), Box::new(self.cond(depth - 1))),
        }
    }
    /// a condition without aliases (for alias definitions)
    fn plain_cond(&mut self) -> Cond {
        for _ in 0..8 {
            let c = self.cond(1);
            let mut a = BTreeSet::new();
            c.aliases(&mut a);
            if a.is_empty() {
                return c;
            }
        }
        Cond::Truthy(self.var())
    }

    fn block(&mut self, depth: u32, lead: &[u8], n: usize) -> Vec<Stmt> {
        self.aliases.push(Vec::new());
        let mut out = Vec::new();
        for v in lead {
            out.push(self.probe(*v));
        }
        for _ in 0..n {
            if self.budget <= 0 {
                break;
            }
            self.budget -= 1;
            self.stmt(depth, &mut out);
        }
        self.aliases.pop();
        out
    }

    fn if_stmt(&mut self, depth: u32, out: &mut Vec<Stmt>) {
        let arms_n = match self.rng.below(6) {
            0..=3 => 1,
            4 => 2,
            _ => 3,
        };
        let mut arms = Vec::new();
        let mut mentioned = BTreeSet::new();
        for _ in 0..arms_n {
            let c = self.cond(2);
            c.vars(&mut mentioned);
            let mut cv = BTreeSet::new();
            c.vars(&mut cv);
            let lead: Vec<u8> = cv.into_iter().take(2).collect();
            let n = self.rng.range(0, 3);
            let b = self.block(depth - 1, &lead, n);
            arms.push((c, b));
        }
        let els = if self.rng.chance(3, 5) {
            let lead: Vec<u8> = mentioned.iter().copied().take(2).collect();
            let n = self.rng.range(0, 2);
            let mut b = self.block(depth - 1, &lead, n);
            if b.is_empty() && self.loops {
                // G-loop keeps clear of the constructs behind C15's findings (empty else,
                // under-initialised locals, condition aliases) so that C41 witnesses are about loops
                let v = self.var();
                b.push(self.probe(v));
            }
            Some(b)
        } else {
            None
        };
        // variables assigned in any branch are probed at the merge point too
        let mut assigned = BTreeSet::new();
        for (_, b) in &arms {
            assigned_vars(b, &mut assigned);
        }
        if let Some(b) = &els {
            assigned_vars(b, &mut assigned);
        }
        out.push(self.st(K::If { arms, els }));
        for v in mentioned.union(&assigned).copied().collect::<Vec<_>>().into_iter().take(3) {
            out.push(self.probe(v));
        }
    }

    fn stmt(&mut self, depth: u32, out: &mut Vec<Stmt>) {
        let roll = self.rng.below(100);
        match roll {
            0..=29 => {
                let v = self.var();
                let r = self.rhs();
                out.push(self.st(K::Assign { vars: vec![v], rhss: vec![r] }));
                if self.rng.chance(1, 3) {
                    out.push(self.probe(v));
                }
            }
            30..=33 => {
                let a = self.var();
                let b = self.var();
                if a != b {
                    let (r1, r2) = if self.rng.bool() { (Rhs::Var(b), Rhs::Var(a)) } else { (self.rhs(), self.rhs()) };
                    out.push(self.st(K::Assign { vars: vec![a, b], rhss: vec![r1, r2] }));
                    out.push(self.probe(a));
                    out.push(self.probe(b));
                }
            }
            34..=63 if depth > 0 => self.if_stmt(depth, out),
            64..=69 => {
                // shadowing re-declaration
                let v = self.var();
                if !self.loops && self.rng.chance(1, 4) {
                    let w = (v + 1) % 4;
                    let r = self.rhs();
                    out.push(self.st(K::Local { vars: vec![v, w], inits: vec![r] }));
                    out.push(self.probe(w));
                } else if !self.loops && self.rng.chance(1, 4) {
                    out.push(self.st(K::Local { vars: vec![v], inits: vec![] }));
                } else {
                    let r = self.rhs();
                    out.push(self.st(K::Local { vars: vec![v], inits: vec![r] }));
                }
                out.push(self.probe(v));
            }
            70..=76 => {
                if self.next_alias < 200 && !self.loops {
                    let alias = self.next_alias;
                    self.next_alias += 1;
                    let cond = self.plain_cond();
                    out.push(self.st(K::AliasDef { alias, cond }));
                    self.aliases.last_mut().unwrap().push(alias);
                }
            }
            77..=79 if depth > 0 => {
                let n = self.rng.range(1, 3);
                let b = self.block(depth - 1, &[], n);
                out.push(self.st(K::Do(b)));
            }
            80..=89 if self.loops && depth > 0 && self.in_loop < 2 => self.loop_stmt(depth, out),
            90..=93 if self.in_loop > 0 && depth > 0 => {
                // conditional break
                let c = self.cond(1);
                let sid_b = self.st(K::Break);
                out.push(self.st(K::If { arms: vec![(c, vec![sid_b])], els: None }));
            }
            _ => {
                let v = self.var();
                out.push(self.probe(v));
            }
        }
    }

    fn counter(&mut self, out: &mut Vec<Stmt>) -> u8 {
        let c = self.next_counter;
        self.next_counter += 1;
        out.push(self.st(K::CounterDef(c)));
        c
    }

    fn loop_body(&mut self, depth: u32, mut head: Vec<Stmt>, probe_vars: &[u8]) -> Vec<Stmt> {
        self.in_loop += 1;
        let n = self.rng.range(1, 3);
        let b = self.block(depth - 1, probe_vars, n);
        self.in_loop -= 1;
        head.extend(b);
        head
    }

    fn truthy_lit(&mut self) -> Lit {
        match self.rng.below(6) {
            0 => Lit::Int(1),
            1..=2 => Lit::Str(0),
            3 => Lit::Table,
            4 => Lit::Func,
            _ => Lit::True,
        }
    }

    fn use_form(l: Lit) -> Option<UseForm> {
        match l {
            Lit::Int(_) | Lit::Float => Some(UseForm::Arith),
            Lit::Str(_) => Some(UseForm::Method),
            Lit::Table => Some(UseForm::Index),
            Lit::Func => Some(UseForm::Call),
            _ => None,
        }
    }

    fn loop_stmt(&mut self, depth: u32, out: &mut Vec<Stmt>) {
        let kind = self.rng.below(14);
        match kind {
            0..=1 => {
                // while nK < LIM [and C] do nK = nK + 1; body end
                let c = self.counter(out);
                let lim = self.rng.below(4) as i64;
                let mut cond = Cond::CounterLt(c, lim);
                let mut cv = BTreeSet::new();
                if self.rng.chance(1, 3) {
                    let extra = self.cond(1);
                    extra.vars(&mut cv);
                    cond = if self.rng.bool() { Cond::And(Box::new(cond), Box::new(extra)) } else { Cond::And(Box::new(extra), Box::new(cond)) };
                }
                let inc = self.st(K::CounterInc(c));
                let pv: Vec<u8> = cv.iter().copied().collect();
                let body = self.loop_body(depth, vec![inc], &pv);
                self.finish_loop(out, K::While { cond, body }, &cv);
            }
            2 => {
                // while true do nK = nK + 1; body; if nK >= LIM then break end; tail end
                let c = self.counter(out);
                let lim = self.rng.range(1, 3) as i64;
                let inc = self.st(K::CounterInc(c));
                let mut body = self.loop_body(depth, vec![inc], &[]);
                let br = self.st(K::Break);
                body.push(self.st(K::If { arms: vec![(Cond::CounterGe(c, lim), vec![br])], els: None }));
                if self.rng.bool() {
                    let v = self.var();
                    let r = Rhs::Lit(self.lit());
                    body.push(self.st(K::Assign { vars: vec![v], rhss: vec![r] }));
                }
                self.finish_loop(out, K::While { cond: Cond::LitTrue, body }, &BTreeSet::new());
            }
            3..=4 => self.template_loop(out, true),
            5 => {
                // repeat nK = nK + 1; body until nK >= LIM [or C]
                let c = self.counter(out);
                let lim = self.rng.range(1, 3) as i64;
                let inc = self.st(K::CounterInc(c));
                let body = self.loop_body(depth, vec![inc], &[]);
                let mut cond = Cond::CounterGe(c, lim);
                let mut cv = BTreeSet::new();
                if self.rng.chance(1, 3) {
                    let extra = self.cond(1);
                    extra.vars(&mut cv);
                    cond = Cond::Or(Box::new(extra), Box::new(cond));
                }
                self.finish_loop(out, K::Repeat { body, cond }, &cv);
            }
            6..=7 => self.template_loop(out, false),
            8..=10 => {
                let (from, to, step) = match self.rng.below(8) {
                    0 => (1, Bound::Lit(0), None),
                    1..=2 => (1, Bound::Lit(self.rng.range(1, 3) as i64), None),
                    3 => (3, Bound::Lit(1), Some(-1)),
                    4 => (1, Bound::Lit(3), Some(-1)),
                    _ => {
                        let m = self.next_bound;
                        self.next_bound += 1;
                        let v = self.rng.below(3) as i64;
                        out.push(self.st(K::BoundDef(m, v)));
                        (1, Bound::Local(m), None)
                    }
                };
                let body = self.loop_body(depth, vec![], &[]);
                self.finish_loop(out, K::NumFor { from, to, step, body }, &BTreeSet::new());
            }
            _ => {
                let (iter, table) = match self.rng.below(5) {
                    0 => ("ipairs", "{}"),
                    1 => ("pairs", "{}"),
                    2 => ("ipairs", "{1, 2}"),
                    3 => ("pairs", "{a = 1}"),
                    _ => ("ipairs", "{\"s\"}"),
                };
                let body = self.loop_body(depth, vec![], &[]);
                self.finish_loop(out, K::GenFor { iter, table, body }, &BTreeSet::new());
            }
        }
    }

    /// push the loop, then probes of everything the body assigns / the condition mentions
    fn finish_loop(&mut self, out: &mut Vec<Stmt>, kind: K, cond_vars: &BTreeSet<u8>) {
        let mut assigned = BTreeSet::new();
        match &kind {
            K::While { body, .. } | K::Repeat { body, .. } | K::NumFor { body, .. } | K::GenFor { body, .. } => assigned_vars(body, &mut assigned),
            _ => {}
        }
        out.push(self.st(kind));
        for v in assigned.union(cond_vars).copied().collect::<Vec<_>>() {
            out.push(self.probe(v));
        }
    }

    /// The templates of the property statement: the exit condition guarantees a value.
    ///   while not v do … v = L … end          (L truthy)
    ///   while v == nil do … v = L … end       (L non-nil)
    ///   repeat … v = L … until v              (L truthy)
    ///   repeat … v = L … until v ~= nil
    /// No `break` inside; `v` is assigned only from the single literal L, the pre-loop value is
    /// nil / absent / false(only for the truthiness forms) or a literal of L's type.
    fn template_loop(&mut self, out: &mut Vec<Stmt>, is_while: bool) {
        let v = self.var();
        let l = self.truthy_lit();
        let truthy_form = self.rng.bool();
        let pre = match self.rng.below(5) {
            0 => None,
            1..=2 => Some(Rhs::Lit(Lit::Nil)),
            3 if truthy_form => Some(Rhs::Lit(Lit::False)),
            3 => Some(Rhs::Lit(Lit::Nil)),
            _ => Some(Rhs::Lit(l)),
        };
        match pre {
            None => out.push(self.st(K::Local { vars: vec![v], inits: vec![Rhs::Lit(Lit::Nil)] })),
            Some(r) => {
                if self.rng.bool() {
                    out.push(self.st(K::Local { vars: vec![v], inits: vec![r] }));
                } else {
                    out.push(self.st(K::Assign { vars: vec![v], rhss: vec![r] }));
                }
            }
        }
        let mut body = Vec::new();
        // other variables may be assigned freely in the body
        if self.rng.bool() {
            let o = (v + 1 + self.rng.below(3) as u8) % 4;
            let r = Rhs::Lit(self.lit());
            body.push(self.st(K::Assign { vars: vec![o], rhss: vec![r] }));
        }
        let assign = self.st(K::Assign { vars: vec![v], rhss: vec![Rhs::Lit(l)] });
        if self.rng.chance(1, 3) {
            // delayed: only from the second iteration on
            let c = self.counter(out);
            body.push(self.st(K::CounterInc(c)));
            body.push(self.st(K::If { arms: vec![(Cond::CounterGe(c, 2), vec![assign])], els: None }));
        } else {
            body.push(assign);
        }
        if self.rng.chance(1, 3) {
            body.push(self.probe(v));
        }
        let exit_cond = if truthy_form { Cond::Truthy(v) } else { Cond::EqNil { var: v, neg: true, swapped: false } };
        let kind = if is_while {
            let cond = if truthy_form { Cond::Not(Box::new(Cond::Truthy(v))) } else { Cond::EqNil { var: v, neg: false, swapped: false } };
            K::While { cond, body }
        } else {
            K::Repeat { body, cond: exit_cond }
        };
        out.push(self.st(kind));
        self.next_k += 1;
        let k = self.next_k;
        match Self::use_form(l) {
            Some(form) => out.push(self.st(K::Use { k, var: v, form, guaranteed: true })),
            None => out.push(self.st(K::Probe { k, var: v })),
        }
    }
}

pub fn assigned_vars(b: &[Stmt], out: &mut BTreeSet<u8>) {
    for s in b {
        match &s.kind {
            K::Assign { vars, .. } => out.extend(vars.iter().copied()),
            K::If { arms, els } => {
                for (_, b) in arms {
                    assigned_vars(b, out);
                }
                if let Some(b) = els {
                    assigned_vars(b, out);
                }
            }
            K::Do(b) => assigned_vars(b, out),
            K::While { body, .. } | K::Repeat { body, .. } | K::NumFor { body, .. } | K::GenFor { body, .. } => assigned_vars(body, out),
            _ => {}
        }
    }
}

fn gen_prog(rng: &mut Rng, size: usize, loops: bool) -> Program {
    let mut g = Gen { rng, next_sid: 0, next_k: 0, next_alias: 0, next_counter: 0, next_bound: 0, aliases: vec![Vec::new()], budget: size as i32, loops, in_loop: 0 };
    let mut body = Vec::new();
    // every variable is declared up front
    let mut v = 0u8;
    while v < 4 {
        if v < 3 && !loops && g.rng.chance(1, 5) {
            let r = g.rhs_lit();
            body.push(g.st(K::Local { vars: vec![v, v + 1], inits: vec![r] }));
            v += 2;
        } else {
            let kind = if !loops && g.rng.chance(1, 8) { K::Local { vars: vec![v], inits: vec![] } } else { K::Local { vars: vec![v], inits: vec![g.rhs_lit()] } };
            body.push(g.st(kind));
            v += 1;
        }
    }
    while g.budget > 0 {
        g.budget -= 1;
        if loops && g.rng.chance(1, 3) {
            g.loop_stmt(3, &mut body);
        } else {
            g.stmt(3, &mut body);
        }
    }
    // final probes of every variable
    for v in 0..4u8 {
        if g.rng.bool() {
            let p = g.probe(v);
            body.push(p);
        }
    }
    Program { body }
}

impl<'a> Gen<'a> {
    fn rhs_lit(&mut self) -> Rhs {
        Rhs::Lit(self.lit())
    }
}

/// G-flow: loop-free program (C15).
pub fn gen_flow(rng: &mut Rng, size: usize) -> Program {
    gen_prog(rng, size, false)
}

/// G-loop: program with loops (C41).
pub fn gen_loop(rng: &mut Rng, size: usize) -> Program {
    gen_prog(rng, size, true)
}

// ───────────────────────────── shrinking helpers ─────────────────────────────

pub fn stmt_ids(p: &Program) -> Vec<u32> {
    fn rec(b: &[Stmt], out: &mut Vec<u32>) {
        for s in b {
            out.push(s.sid);
            match &s.kind {
                K::If { arms, els } => {
                    for (_, b) in arms {
                        rec(b, out);
                    }
                    if let Some(b) = els {
                        rec(b, out);
                    }
                }
                K::Do(b) => rec(b, out),
                K::While { body, .. } | K::Repeat { body, .. } | K::NumFor { body, .. } | K::GenFor { body, .. } => rec(body, out),
                _ => {}
            }
        }
    }
    let mut v = Vec::new();
    rec(&p.body, &mut v);
    v
}

pub fn retain(p: &Program, keep: &BTreeSet<u32>) -> Program {
    fn rb(b: &[Stmt], keep: &BTreeSet<u32>) -> Vec<Stmt> {
        b.iter()
            .filter(|s| keep.contains(&s.sid))
            .map(|s| {
                let kind = match &s.kind {
                    K::If { arms, els } => K::If { arms: arms.iter().map(|(c, b)| (c.clone(), rb(b, keep))).collect(), els: els.as_ref().map(|b| rb(b, keep)) },
                    K::Do(b) => K::Do(rb(b, keep)),
                    K::While { cond, body } => K::While { cond: cond.clone(), body: rb(body, keep) },
                    K::Repeat { body, cond } => K::Repeat { body: rb(body, keep), cond: cond.clone() },
                    K::NumFor { from, to, step, body } => K::NumFor { from: *from, to: to.clone(), step: *step, body: rb(body, keep) },
                    K::GenFor { iter, table, body } => K::GenFor { iter, table, body: rb(body, keep) },
                    other => other.clone(),
                };
                Stmt { sid: s.sid, kind }
            })
            .collect()
    }
    Program { body: rb(&p.body, keep) }
}

/// Every variable / alias / counter / bound that is mentioned is a visible local at that point,
/// `break` only inside loops. (Shrinking must not turn locals into globals.)
pub fn well_scoped(p: &Program) -> bool {
    #[derive(Clone, PartialEq, Eq, PartialOrd, Ord)]
    enum N {
        V(u8),
        A(u8),
        C(u8),
        M(u8),
    }
    fn cond_ok(c: &Cond, sc: &Vec<BTreeSet<N>>) -> bool {
        let vis = |n: N| sc.iter().any(|f| f.contains(&n));
        let mut v = BTreeSet::new();
        c.vars(&mut v);
        let mut a = BTreeSet::new();
        c.aliases(&mut a);
        let mut k = BTreeSet::new();
        c.counters(&mut k);
        v.into_iter().all(|x| vis(N::V(x))) && a.into_iter().all(|x| vis(N::A(x))) && k.into_iter().all(|x| vis(N::C(x)))
    }
    fn rhs_ok(r: &Rhs, sc: &Vec<BTreeSet<N>>) -> bool {
        match r {
            Rhs::Var(v) => sc.iter().any(|f| f.contains(&N::V(*v))),
            _ => true,
        }
    }
    fn block(b: &[Stmt], sc: &mut Vec<BTreeSet<N>>, in_loop: bool) -> bool {
        sc.push(BTreeSet::new());
        let mut ok = true;
        for s in b {
            let vis = |n: N, sc: &Vec<BTreeSet<N>>| sc.iter().any(|f| f.contains(&n));
            ok &= match &s.kind {
                K::Local { vars, inits } => {
                    let r = inits.iter().all(|r| rhs_ok(r, sc));
                    for v in vars {
                        sc.last_mut().unwrap().insert(N::V(*v));
                    }
                    r
                }
                K::Assign { vars, rhss } => vars.iter().all(|v| vis(N::V(*v), sc)) && rhss.iter().all(|r| rhs_ok(r, sc)),
                K::AliasDef { alias, cond } => {
                    let r = cond_ok(cond, sc);
                    sc.last_mut().unwrap().insert(N::A(*alias));
                    r
                }
                K::If { arms, els } => {
                    let mut r = true;
                    for (c, b) in arms {
                        r &= cond_ok(c, sc) && block(b, sc, in_loop);
                    }
                    if let Some(b) = els {
                        r &= block(b, sc, in_loop);
                    }
                    r
                }
                K::Do(b) => block(b, sc, in_loop),
                K::Probe { var, .. } | K::Use { var, .. } => vis(N::V(*var), sc),
                K::CounterDef(c) => {
                    sc.last_mut().unwrap().insert(N::C(*c));
                    true
                }
                K::CounterInc(c) => vis(N::C(*c), sc),
                K::BoundDef(m, _) => {
                    sc.last_mut().unwrap().insert(N::M(*m));
                    true
                }
                K::While { cond, body } => cond_ok(cond, sc) && block(body, sc, true),
                K::Repeat { body, cond } => {
                    // the until-condition only mentions outer names in this generator
                    block(body, sc, true) && cond_ok(cond, sc)
                }
                K::NumFor { to, body, .. } => {
                    (match to {
                        Bound::Local(m) => vis(N::M(*m), sc),
                        _ => true,
                    }) && block(body, sc, true)
                }
                K::GenFor { body, .. } => block(body, sc, true),
                K::Break => in_loop,
            };
        }
        sc.pop();
        ok
    }
    let mut sc = Vec::new();
    block(&p.body, &mut sc, false)
}

/// The `n`-th structural one-step reduction (deterministic order), or None.
/// Sites: splice a branch / loop / do body into the parent, drop an else / elseif arm, replace a
/// compound condition by one operand or strip a `not`, turn a multi-assignment into a single one.
pub fn reduce_nth(p: &Program, n: usize) -> Option<Program> {
    let mut aliases = BTreeMap::new();
    alias_defs(&p.body, &mut aliases);
    let mut r = Red { target: n, count: 0, done: false, aliases };
    let mut q = p.clone();
    r.block(&mut q.body);
    if r.done { Some(q) } else { None }
}

/// the block without the `break`s that belong to the enclosing loop
fn strip_breaks(b: &[Stmt]) -> Vec<Stmt> {
    b.iter()
        .filter(|s| !matches!(s.kind, K::Break))
        .map(|s| Stmt {
            sid: s.sid,
            kind: match &s.kind {
                K::If { arms, els } => K::If { arms: arms.iter().map(|(c, bb)| (c.clone(), strip_breaks(bb))).collect(), els: els.as_ref().map(|bb| strip_breaks(bb)) },
                K::Do(bb) => K::Do(strip_breaks(bb)),
                other => other.clone(),
            },
        })
        .collect()
}

/// alias id → defining condition
pub fn alias_defs(b: &[Stmt], out: &mut BTreeMap<u8, Cond>) {
    for s in b {
        match &s.kind {
            K::AliasDef { alias, cond } => {
                out.insert(*alias, cond.clone());
            }
            K::If { arms, els } => {
                for (_, bb) in arms {
                    alias_defs(bb, out);
                }
                if let Some(bb) = els {
                    alias_defs(bb, out);
                }
            }
            K::Do(bb) => alias_defs(bb, out),
            K::While { body, .. } | K::Repeat { body, .. } | K::NumFor { body, .. } | K::GenFor { body, .. } => alias_defs(body, out),
            _ => {}
        }
    }
}

struct Red {
    target: usize,
    count: usize,
    done: bool,
    aliases: BTreeMap<u8, Cond>,
}

impl Red {
    fn hit(&mut self) -> bool {
        if self.done {
            return false;
        }
        let h = self.count == self.target;
        self.count += 1;
        if h {
            self.done = true;
        }
        h
    }
    fn cond(&mut self, c: &mut Cond) {
        if self.done {
            return;
        }
        match c.clone() {
            Cond::Alias(a) => {
                // inline the alias: if the failure survives, the alias was not essential
                if let Some(def) = self.aliases.get(&a).cloned() {
                    if self.hit() {
                        *c = def;
                    }
                }
            }
            Cond::Not(x) => {
                if self.hit() {
                    *c = *x;
                    return;
                }
                if let Cond::Not(inner) = c {
                    self.cond(inner);
                }
            }
            Cond::And(a, b) | Cond::Or(a, b) => {
                if self.hit() {
                    *c = *a;
                    return;
                }
                if self.hit() {
                    *c = *b;
                    return;
                }
                match c {
                    Cond::And(x, y) | Cond::Or(x, y) => {
                        self.cond(x);
                        self.cond(y);
                    }
                    _ => {}
                }
            }
            _ => {}
        }
    }
    fn block(&mut self, b: &mut Vec<Stmt>) {
        let mut i = 0;
        while i < b.len() && !self.done {
            let inners: Vec<Vec<Stmt>> = match &b[i].kind {
                K::Do(x) => vec![x.clone()],
                K::While { body, .. } | K::Repeat { body, .. } | K::NumFor { body, .. } | K::GenFor { body, .. } => vec![strip_breaks(body)],
                K::If { arms, els } => {
                    let mut v: Vec<Vec<Stmt>> = arms.iter().map(|a| a.1.clone()).collect();
                    if let Some(e) = els {
                        v.push(e.clone());
                    }
                    v
                }
                _ => vec![],
            };
            for inner in inners {
                if self.hit() {
                    b.splice(i..=i, inner);
                    return;
                }
            }
            // `local a, b = v` → `local a = v; local b = nil` (is the missing value essential?)
            if let K::Local { vars, inits } = &b[i].kind {
                if vars.len() == 2 && inits.len() == 1 && self.hit() {
                    let (v0, v1, r) = (vars[0], vars[1], inits[0].clone());
                    let sid = b[i].sid;
                    // the right-hand side is evaluated before either name is declared
                    let uses_v0 = matches!(r, Rhs::Var(x) if x == v0);
                    if !uses_v0 {
                        b.splice(
                            i..=i,
                            vec![
                                Stmt { sid, kind: K::Local { vars: vec![v0], inits: vec![r] } },
                                Stmt { sid: sid + 500_000, kind: K::Local { vars: vec![v1], inits: vec![Rhs::Lit(Lit::Nil)] } },
                            ],
                        );
                    }
                    return;
                }
            }
            self.stmt(&mut b[i]);
            i += 1;
        }
    }
    fn stmt(&mut self, s: &mut Stmt) {
        match &mut s.kind {
            K::Local { vars, inits } => {
                if vars.len() > 1 && self.hit() {
                    vars.truncate(1);
                    inits.truncate(1);
                    return;
                }
                // `local a` → `local a = nil` (is the missing initialiser essential?)
                if vars.len() == 1 && inits.is_empty() && self.hit() {
                    inits.push(Rhs::Lit(Lit::Nil));
                }
            }
            K::Assign { vars, rhss } => {
                if vars.len() > 1 {
                    if self.hit() {
                        vars.truncate(1);
                        rhss.truncate(1);
                        return;
                    }
                    if self.hit() {
                        vars.remove(0);
                        rhss.remove(0);
                    }
                }
            }
            K::AliasDef { cond, .. } => self.cond(cond),
            K::If { arms, els } => {
                if els.is_some() && self.hit() {
                    *els = None;
                    return;
                }
                if arms.len() > 1 {
                    for i in 0..arms.len() {
                        if self.hit() {
                            arms.remove(i);
                            return;
                        }
                    }
                }
                for (c, b) in arms.iter_mut() {
                    self.cond(c);
                    self.block(b);
                }
                if let Some(b) = els {
                    self.block(b);
                }
            }
            K::Do(b) => self.block(b),
            K::While { cond, body } => {
                self.cond(cond);
                self.block(body);
            }
            K::Repeat { body, cond } => {
                self.block(body);
                self.cond(cond);
            }
            K::NumFor { body, .. } | K::GenFor { body, .. } => self.block(body),
            _ => {}
        }
    }
}

/// Map probe id → path of guard shapes (used for fingerprints and signatures).
pub fn probe_paths(pr: &Printed) -> BTreeMap<u32, Vec<String>> {
    pr.probes.iter().map(|p| (p.k, p.path.clone())).collect()
}
