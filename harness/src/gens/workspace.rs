//! G-workspace / G-history (DESIGN.md §3): small multi-file Lua workspaces and edit histories
//! for the analysis-state properties C08–C11 (and C38).
//!
//! A workspace is 2–8 files under a main root and (optionally) a library root. Every file `i`
//! has a unique *marker* (`F<i>` / `f<i>`) that prefixes every name only that file declares;
//! names declared by several files on purpose (split classes, conflicting globals, duplicate
//! aliases) start with `S`. Files are lists of *chunks* (a doc-comment block plus its
//! statement, tagged with a construct kind) so that witnesses can be shrunk over files, then
//! chunks, then lines, and so that signatures can name constructs instead of identifiers.
//!
//! Everything here is a deterministic function of the `Rng` passed in.

use crate::rng::Rng;
use emmylua_code_analysis::{EmmyLuaAnalysis, Emmyrc, FileId, WorkspaceFolder, file_path_to_uri};
use lsp_types::Uri;
use serde::{Deserialize, Serialize};
use std::path::PathBuf;
use std::sync::Arc;

/// Virtual base directory. Nothing is ever read from or written to it (texts are handed to the
/// analysis directly), it only has to be an absolute path.
pub const BASE: &str = "/vw";

#[derive(Clone, Debug, Serialize, Deserialize, PartialEq, Eq)]
pub struct Chunk {
    pub kind: String,
    pub text: String,
}

#[derive(Clone, Debug, Serialize, Deserialize, PartialEq, Eq)]
pub struct GenFile {
    /// path relative to BASE, e.g. `main/pkg/f2.lua`
    pub path: String,
    /// 0 = main root, 1 = library root
    pub root: usize,
    /// `F2`
    pub marker: String,
    /// module name relative to its root, e.g. `pkg.f2`
    pub module: String,
    pub chunks: Vec<Chunk>,
}

impl GenFile {
    pub fn text(&self) -> String {
        chunks_text(&self.chunks)
    }
    pub fn abs_path(&self) -> String {
        format!("{BASE}/{}", self.path)
    }
    pub fn uri(&self) -> Uri {
        path_uri(&self.abs_path())
    }
    pub fn lower(&self) -> String {
        self.marker.to_lowercase()
    }
}

pub fn chunks_text(chunks: &[Chunk]) -> String {
    let mut s = String::new();
    for c in chunks {
        s.push_str(&c.text);
        if !c.text.ends_with('\n') {
            s.push('\n');
        }
    }
    s
}

pub fn path_uri(abs: &str) -> Uri {
    file_path_to_uri(&PathBuf::from(abs)).expect("absolute path gives a uri")
}

#[derive(Clone, Debug, Serialize, Deserialize, PartialEq, Eq)]
pub struct Workspace {
    pub files: Vec<GenFile>,
    /// whether a library root (`BASE/lib`) is registered
    pub library: bool,
    /// index into CONFIGS
    pub config: usize,
}

/// One step of a G-history. File indices refer to `Workspace::files`.
#[derive(Clone, Debug, Serialize, Deserialize, PartialEq, Eq)]
#[serde(tag = "op")]
pub enum Step {
    /// `update_file_by_uri(u, Some(current text))`
    Resubmit { file: usize },
    /// `update_files_by_uri([...current texts...])`
    BatchResubmit { files: Vec<usize> },
    /// `update(u, edited)` then `update(u, current text)`
    EditRestore { file: usize, edited: Vec<Chunk> },
    /// `update(u, new text)`; the new text becomes the current text
    Update { file: usize, chunks: Vec<Chunk> },
    /// `remove_file_by_uri(u)` (or `update_file_by_uri(u, None)` when `by_none`)
    Remove { file: usize, by_none: bool },
    /// `update_file_by_uri(u, Some(current text))` of a removed file
    ReAdd { file: usize },
    /// `reindex()`
    Reindex,
    /// `update_config(CONFIGS[variant])` alone
    Config { variant: usize },
    /// what the language server does on a configuration change: `update_config`, then every
    /// present file is submitted again in one batch (and therefore parsed again)
    ConfigReload { variant: usize },
}

impl Step {
    pub fn kind(&self) -> &'static str {
        match self {
            Step::Resubmit { .. } => "resubmit",
            Step::BatchResubmit { .. } => "batch-resubmit",
            Step::EditRestore { .. } => "edit-restore",
            Step::Update { .. } => "update",
            Step::Remove { by_none: false, .. } => "remove",
            Step::Remove { by_none: true, .. } => "remove-by-none",
            Step::ReAdd { .. } => "re-add",
            Step::Reindex => "reindex",
            Step::Config { .. } => "config",
            Step::ConfigReload { .. } => "config-reload",
        }
    }
}

// ───────────────────────── configuration variants ─────────────────────────

pub const N_CONFIGS: usize = 6;

pub fn config_name(variant: usize) -> &'static str {
    match variant % N_CONFIGS {
        0 => "default",
        1 => "lua51",
        2 => "strict-require-path",
        3 => "require-pattern",
        4 => "no-meta-override",
        _ => "module-map",
    }
}

/// The configuration variants used by G-history `Config` steps.
pub fn config(variant: usize) -> Arc<Emmyrc> {
    let j = match variant % N_CONFIGS {
        0 => serde_json::json!({}),
        1 => serde_json::json!({"runtime": {"version": "Lua5.1"}}),
        2 => serde_json::json!({"strict": {"requirePath": true}}),
        3 => serde_json::json!({"runtime": {"requirePattern": ["?/init.lua", "pkg/?.lua"]}}),
        4 => serde_json::json!({"strict": {"metaOverrideFileDefine": false, "arrayIndex": false}}),
        _ => serde_json::json!({"workspace": {"moduleMap": [{"pattern": "^pkg\\.(.*)$", "replace": "$1"}]}}),
    };
    let rc: Emmyrc = serde_json::from_value(j).expect("config variant deserialises");
    Arc::new(rc)
}

// ───────────────────────── building an analysis ─────────────────────────

#[derive(Clone, Copy, Debug, PartialEq, Eq)]
pub enum Load {
    /// set all texts, then analyse in file-id order (what `reindex` and the crate's own
    /// `update_files_by_uri_sorted` test helper do) — the deterministic "fresh analysis".
    Sorted,
    /// the production batch entry point `update_files_by_uri` (C11)
    Production,
    /// one `update_file_by_uri` per file, in order (how an editor session grows)
    OneByOne,
}

pub fn new_analysis(library: bool, cfg: usize) -> EmmyLuaAnalysis {
    let mut a = EmmyLuaAnalysis::new();
    a.update_config(config(cfg));
    a.add_main_workspace(PathBuf::from(format!("{BASE}/main")));
    if library {
        a.add_library_workspace(&WorkspaceFolder::new(PathBuf::from(format!("{BASE}/lib")), true));
    }
    a
}

/// Registers `files` (abs path, text) in the given order and analyses them.
pub fn load_files(a: &mut EmmyLuaAnalysis, files: &[(String, String)], load: Load) -> Vec<FileId> {
    match load {
        Load::Production => {
            let v: Vec<(Uri, Option<String>)> = files.iter().map(|(p, t)| (path_uri(p), Some(t.clone()))).collect();
            a.update_files_by_uri(v);
            files.iter().filter_map(|(p, _)| a.get_file_id(&path_uri(p))).collect()
        }
        Load::OneByOne => files.iter().filter_map(|(p, t)| a.update_file_by_uri(&path_uri(p), Some(t.clone()))).collect(),
        Load::Sorted => {
            let mut ids = Vec::new();
            for (p, t) in files {
                let id = a.compilation.get_db_mut().get_vfs_mut().set_file_content(&path_uri(p), Some(t.clone()));
                ids.push(id);
            }
            let mut sorted = ids.clone();
            sorted.sort();
            sorted.dedup();
            a.compilation.remove_index(sorted.clone());
            a.compilation.update_index(sorted);
            ids
        }
    }
}

impl Workspace {
    pub fn file_list(&self) -> Vec<(String, String)> {
        self.files.iter().map(|f| (f.abs_path(), f.text())).collect()
    }
    pub fn build(&self, load: Load) -> EmmyLuaAnalysis {
        let mut a = new_analysis(self.library, self.config);
        load_files(&mut a, &self.file_list(), load);
        a
    }
    pub fn n_chunks(&self) -> usize {
        self.files.iter().map(|f| f.chunks.len()).sum()
    }
    /// sorted, de-duplicated construct kinds present (for signatures)
    pub fn kinds(&self) -> Vec<String> {
        let mut k: Vec<String> = self.files.iter().flat_map(|f| f.chunks.iter().map(|c| c.kind.clone())).collect();
        k.sort();
        k.dedup();
        k
    }
    pub fn fingerprint(&self) -> u64 {
        let mut h = crate::rng::fnv(format!("{}|{}", self.library, self.config).as_bytes());
        for f in &self.files {
            h = crate::rng::mix(h, crate::rng::fnv(f.path.as_bytes()));
            h = crate::rng::mix(h, crate::rng::fnv(f.text().as_bytes()));
        }
        h
    }
}

/// The logical state a history has reached: current chunks per file (None = removed) and config.
#[derive(Clone, Debug)]
pub struct Model {
    pub cur: Vec<Option<Vec<Chunk>>>,
    pub config: usize,
}

impl Model {
    pub fn new(ws: &Workspace) -> Self {
        Model { cur: ws.files.iter().map(|f| Some(f.chunks.clone())).collect(), config: ws.config }
    }
    pub fn present(&self, i: usize) -> bool {
        self.cur.get(i).map(|c| c.is_some()).unwrap_or(false)
    }
    pub fn text(&self, i: usize) -> Option<String> {
        self.cur.get(i).and_then(|c| c.as_ref()).map(|c| chunks_text(c))
    }
}

/// Applies one step to the real analysis and to the model. Steps that do not apply in the
/// current state (e.g. re-submitting a removed file — possible after shrinking) are skipped and
/// `false` is returned.
pub fn apply_step(a: &mut EmmyLuaAnalysis, ws: &Workspace, m: &mut Model, step: &Step) -> bool {
    match step {
        Step::Resubmit { file } => {
            let Some(t) = m.text(*file) else { return false };
            a.update_file_by_uri(&ws.files[*file].uri(), Some(t));
            true
        }
        Step::BatchResubmit { files } => {
            let v: Vec<(Uri, Option<String>)> = files.iter().filter_map(|i| m.text(*i).map(|t| (ws.files[*i].uri(), Some(t)))).collect();
            if v.is_empty() {
                return false;
            }
            a.update_files_by_uri(v);
            true
        }
        Step::EditRestore { file, edited } => {
            let Some(t) = m.text(*file) else { return false };
            let u = ws.files[*file].uri();
            a.update_file_by_uri(&u, Some(chunks_text(edited)));
            a.update_file_by_uri(&u, Some(t));
            true
        }
        Step::Update { file, chunks } => {
            if !m.present(*file) {
                return false;
            }
            a.update_file_by_uri(&ws.files[*file].uri(), Some(chunks_text(chunks)));
            m.cur[*file] = Some(chunks.clone());
            true
        }
        Step::Remove { file, by_none } => {
            if !m.present(*file) {
                return false;
            }
            let u = ws.files[*file].uri();
            if *by_none {
                a.update_file_by_uri(&u, None);
            } else {
                a.remove_file_by_uri(&u);
            }
            m.cur[*file] = None;
            true
        }
        Step::ReAdd { file } => {
            if m.present(*file) || *file >= ws.files.len() {
                return false;
            }
            let chunks = ws.files[*file].chunks.clone();
            a.update_file_by_uri(&ws.files[*file].uri(), Some(chunks_text(&chunks)));
            m.cur[*file] = Some(chunks);
            true
        }
        Step::Reindex => {
            a.reindex();
            true
        }
        Step::Config { variant } => {
            a.update_config(config(*variant));
            m.config = *variant;
            true
        }
        Step::ConfigReload { variant } => {
            a.update_config(config(*variant));
            m.config = *variant;
            let v: Vec<(Uri, Option<String>)> = (0..ws.files.len()).filter_map(|i| m.text(i).map(|t| (ws.files[i].uri(), Some(t)))).collect();
            a.update_files_by_uri(v);
            true
        }
    }
}

// ───────────────────────── chunk templates ─────────────────────────

pub const N_SHARED: usize = 2;

/// What a chunk may refer to: the file's own marker, the markers/modules of all files.
pub struct GenCtx {
    pub markers: Vec<String>,
    pub modules: Vec<String>,
    pub in_lib: Vec<bool>,
}

fn lit(rng: &mut Rng) -> &'static str {
    rng.pick(&["1", "\"s\"", "{ a = 1 }", "true", "1.5", "{ 1, 2 }", "nil", "function() return 1 end"])
}

fn ty(rng: &mut Rng) -> &'static str {
    rng.pick(&["integer", "string", "number", "boolean", "string[]", "integer|string", "table<string, integer>", "fun(a: integer): string", "integer?"])
}

pub const KINDS: &[&str] = &[
    "class-own",
    "class-method",
    "class-self-field",
    "class-shared",
    "class-shared-global",
    "class-sub",
    "global-conflict",
    "global-read",
    "global-own",
    "func-own",
    "call-other",
    "use-class",
    "use-shared",
    "require",
    "alias-own",
    "alias-shared",
    "enum-own",
    "enum-use",
    "operator",
    "diag-next-line",
    "diag-disable-block",
    "bad-type",
    "undefined",
    "generic-class",
    "deprecated",
    "overload",
    "table-global",
    "table-extend",
    "control-flow",
    "setmetatable",
    "type-other-field",
    "version-syntax",
    "doc-single-tag",
    "table-extend-shared",
    "module-extend-shared",
];

/// One chunk of construct `kind` for file `me`; `n` makes the names it declares unique in the file.
pub fn chunk(rng: &mut Rng, g: &GenCtx, me: usize, n: usize, kind: &str) -> Chunk {
    let up = g.markers[me].clone();
    let lo = up.to_lowercase();
    // a library never depends on the main workspace (it is analysed before it on purpose)
    let allowed: Vec<usize> = (0..g.markers.len()).filter(|i| !g.in_lib[me] || g.in_lib[*i]).collect();
    let other = rng.pick(&allowed);
    let oup = g.markers[other].clone();
    let olo = oup.to_lowercase();
    let sh = rng.below(N_SHARED);
    // names shared between files: `S…` among main files, `L…` among library files (main files
    // may use the library's, never the other way round)
    let declares = matches!(kind, "class-shared" | "class-shared-global" | "global-conflict" | "alias-shared");
    let sp = if g.in_lib[me] || (!declares && g.in_lib.iter().any(|l| *l) && rng.chance(1, 4)) { "L" } else { "S" };
    let text = match kind {
        "class-own" => {
            let bind = if rng.bool() { format!("{up}Cls = {{}}") } else { format!("local {lo}_cls{n} = {{}}") };
            format!("--- Class {up}Cls documented in {lo} #{lo}#\n---@class {up}Cls\n---@field {lo}_a integer field a of {up}Cls\n---@field {lo}_b {}\n---@field {lo}_opt? boolean\n{bind}\n", ty(rng))
        }
        "class-method" => format!(
            "--- method {lo}_m of {up}Cls #{lo}#\n---@param x integer\n---@return string\nfunction {up}Cls:{lo}_m(x) return tostring(x) .. self.{lo}_b end\n"
        ),
        "class-self-field" => format!("function {up}Cls:{lo}_init{n}()\n  self.{lo}_dyn{n} = {}\nend\n", lit(rng)),
        "class-shared" => {
            let partial = if rng.chance(1, 3) { "(partial) " } else { "" };
            // the super class is either a class of another file, or (half of the time) a base class
            // declared right here whose NAME carries this file's marker: a super-class relation that
            // survives the removal of the file that stated it is then recognisable (C10)
            let own_base = rng.bool();
            let sup = if rng.chance(1, 3) { if own_base { format!(": {up}Base{n}") } else { format!(": {oup}Cls") } } else { String::new() };
            let base_decl = if !sup.is_empty() && own_base { format!("---@class {up}Base{n}\n---@field {lo}_basef integer\n") } else { String::new() };
            let desc = if rng.chance(3, 4) { format!("--- {sp}Cls{sh} described by {lo} #{lo}#\n") } else { String::new() };
            let bind = match rng.below(3) {
                0 => format!("local {lo}_sc{n} = {{}}\n"),
                _ => String::new(),
            };
            let op = if rng.chance(1, 3) { format!("---@operator add({sp}Cls{sh}): {sp}Cls{sh}\n---@operator call(integer): string\n") } else { String::new() };
            format!("{base_decl}{desc}---@class {partial}{sp}Cls{sh}{sup}\n{op}---@field {lo}_s{n} integer only in {lo}\n---@field s_common {}\n{bind}", ty(rng))
        }
        "class-shared-global" => format!(
            "--- {sp}Cls{sh} as a global table, from {lo} #{lo}#\n---@class {sp}Cls{sh}\n{sp}Cls{sh} = {{}}\n--- shared method from {lo} #{lo}#\nfunction {sp}Cls{sh}:{lo}_sm{n}() return {} end\n",
            lit(rng)
        ),
        "class-sub" => format!("--- {up}Sub{n} extends a class of {olo} #{lo}#\n---@class {up}Sub{n}: {oup}Cls\n---@field {lo}_sub{n} string\n---@type {up}Sub{n}\nlocal {lo}_subv{n}\nlocal {lo}_subx{n} = {lo}_subv{n}.{olo}_a\n"),
        "global-conflict" => {
            let doc = match rng.below(4) {
                0 => format!("--- {sp}G{sh} doc from {lo} #{lo}#\n"),
                1 => format!("---@type {}\n", ty(rng)),
                _ => String::new(),
            };
            format!("{doc}{sp}G{sh} = {}\n", lit(rng))
        }
        "global-read" => format!("local {lo}_t{n} = {sp}G{sh}\n"),
        "global-own" => format!("--- global {up}_G of {lo} #{lo}#\n{up}_G = {}\nlocal {lo}_gr{n} = {up}_G\n", lit(rng)),
        "func-own" => format!("--- does things ({lo}) #{lo}#\n---@param a integer\n---@param b? {}\n---@return string\nfunction {up}_fn(a, b) return tostring(a) end\n", ty(rng)),
        "call-other" => format!("local {lo}_r{n} = {oup}_fn({})\nlocal {lo}_g{n} = {oup}_G\n", lit(rng)),
        "use-class" => format!("---@type {oup}Cls\nlocal {lo}_o{n}\nlocal {lo}_x{n} = {lo}_o{n}.{olo}_a\nlocal {lo}_y{n} = {lo}_o{n}:{olo}_m(1)\nlocal {lo}_z{n} = {lo}_o{n}.{olo}_b\n"),
        "use-shared" => format!("---@type {sp}Cls{sh}\nlocal {lo}_so{n}\nlocal {lo}_q{n} = {lo}_so{n}.s_common\nlocal {lo}_w{n} = {lo}_so{n}.{olo}_s1\nlocal {lo}_k{n} = {lo}_so{n}:{olo}_sm2()\nlocal {lo}_p{n} = {lo}_so{n} + {lo}_so{n}\nlocal {lo}_c{n} = {lo}_so{n}(1)\n"),
        "require" => {
            let m = g.modules[other].clone();
            format!("local {lo}_m{n} = require(\"{m}\")\nlocal {lo}_mv{n} = {lo}_m{n}.{olo}_val\n")
        }
        "alias-own" => format!("--- alias of {lo} #{lo}#\n---@alias {up}Alias integer|string\n---@type {up}Alias\nlocal {lo}_al{n} = 1\n"),
        "alias-shared" => {
            // half of the time the alias body carries the marker of the declaring file (a string
            // literal type), so that an alias body surviving its file is recognisable (C10)
            let body = if rng.bool() { format!("{}|\"#{lo}#\"", rng.pick(&["integer", "string", "boolean"])) } else { ty(rng).to_string() };
            format!("--- {sp}Alias{sh} from {lo} #{lo}#\n---@alias {sp}Alias{sh} {body}\n---@type {sp}Alias{sh}\nlocal {lo}_sal{n}\n")
        }
        "enum-own" => format!("--- enum of {lo} #{lo}#\n---@enum {up}Enum\n{up}Enum = {{\n  {lo}_A = 1,\n  --- second value #{lo}#\n  {lo}_B = 2,\n}}\nlocal {lo}_e{n} = {up}Enum.{lo}_A\n"),
        "enum-use" => format!("---@type {oup}Enum\nlocal {lo}_eu{n} = {oup}Enum.{olo}_B\n---@param e {oup}Enum\nlocal function {lo}_ef{n}(e) return e end\n"),
        "operator" => format!("---@class {up}Vec{n}\n---@operator add({up}Vec{n}): {up}Vec{n}\n---@operator unm: {up}Vec{n}\n---@operator call(integer): string\n---@field {lo}_vx number\n---@type {up}Vec{n}\nlocal {lo}_v{n}\nlocal {lo}_vs{n} = {lo}_v{n} + {lo}_v{n}\nlocal {lo}_vc{n} = {lo}_v{n}(1)\n"),
        "diag-next-line" => format!("---@diagnostic disable-next-line: undefined-global\nlocal {lo}_u{n} = {up}_undefined_{n}\n"),
        "diag-disable-block" => format!("---@diagnostic disable: undefined-global\nlocal {lo}_ub{n} = {up}_undefined_b{n}\n---@diagnostic enable: undefined-global\n"),
        "bad-type" => format!("---@type integer\nlocal {lo}_bad{n} = \"str\"\n"),
        "undefined" => format!("local {lo}_ud{n} = {up}_nowhere{n} + 1\nlocal {lo}_uf{n} = {lo}_ud{n}.nofield\n"),
        "generic-class" => format!("---@class {up}Box<T>\n---@field {lo}_value T\n---@type {up}Box<{}>\nlocal {lo}_box{n}\nlocal {lo}_bv{n} = {lo}_box{n}.{lo}_value\n", rng.pick(&["integer", "string"])),
        "deprecated" => format!("--- old function of {lo} #{lo}#\n---@deprecated use {up}_fn\n---@see {up}_fn\n---@version >5.1\nfunction {up}_old{n}() end\n{oup}_old{n}()\n"),
        "overload" => format!("---@overload fun(a: string): integer\n---@param a integer\n---@return boolean\nfunction {up}_ov{n}(a) return true end\nlocal {lo}_ovr{n} = {up}_ov{n}(\"x\")\n"),
        "table-global" => format!("--- table {up}_T of {lo} #{lo}#\n{up}_T = {{ {lo}_k = 1 }}\n{up}_T.{lo}_k2 = \"x\"\nfunction {up}_T.{lo}_tf(a) return a end\nlocal {lo}_tk{n} = {up}_T.{lo}_k\n"),
        "table-extend" => format!("{oup}_T.{lo}_ext{n} = {}\nlocal {lo}_te{n} = {oup}_T.{olo}_k2\n", lit(rng)),
        "control-flow" => format!(
            "local function {lo}_cf{n}(p)\n  local acc = 0\n  for i = 1, 3 do\n    if type(p) == \"string\" then acc = acc + #p elseif p then acc = acc + i end\n  end\n  while acc > 10 do acc = acc - 1 end\n  return acc, function() return p end\nend\nlocal {lo}_cfr{n} = {lo}_cf{n}({})\n",
            lit(rng)
        ),
        "setmetatable" => format!("local {lo}_mt{n} = setmetatable({{ {lo}_own{n} = 1 }}, {{ __index = {oup}Cls }})\nlocal {lo}_mtx{n} = {lo}_mt{n}.{olo}_a\n"),
        "type-other-field" => format!("---@class {up}Holder{n}\n---@field {lo}_ref {oup}Cls\n---@field {lo}_al {oup}Alias\n---@field {lo}_en {oup}Enum\n---@type {up}Holder{n}\nlocal {lo}_h{n}\nlocal {lo}_hx{n} = {lo}_h{n}.{lo}_ref.{olo}_a\n"),
        "doc-single-tag" => {
            // a declaration documented by ONE tag only (each tag has its own path into the property index)
            let tag = rng.pick(&["---@see", "---@deprecated", "---@nodiscard", "---@async", "---@version >5.1", "---@source", "---@private", "---@readonly"]);
            let arg = match tag {
                "---@see" => format!(" {up}_fn"),
                "---@source" => format!(" {lo}.lua:1"),
                "---@deprecated" => format!(" marker #{lo}#"),
                _ => String::new(),
            };
            if rng.bool() {
                format!("{tag}{arg}\nlocal {lo}_tagged{n} = {}\n", lit(rng))
            } else {
                format!("{tag}{arg}\nfunction {up}_tagged{n}() end\n")
            }
        }
        // several files assign the SAME field of one global table / required module with different
        // types (which assignment types the field must not depend on hash order, C11)
        "table-extend-shared" => format!("{oup}_T.shared_ext{sh} = {}\nlocal {lo}_rse{n} = {oup}_T.shared_ext{sh}\n", lit(rng)),
        "module-extend-shared" => {
            // requiring one's own module is legal but odd: keep it rare
            let other = if other == me && !rng.chance(1, 8) { rng.pick(&allowed) } else { other };
            let m = g.modules[other].clone();
            format!("local {lo}_mx{n} = require(\"{m}\")\n{lo}_mx{n}.shared_mode{sh} = {}\nlocal {lo}_rmx{n} = {lo}_mx{n}.shared_mode{sh}\n", lit(rng))
        }
        "version-syntax" => format!("local {lo}_c{n} <const> = 1\nlocal {lo}_d{n} = 7 // 2\nlocal {lo}_b{n} = 5 & 3\n"),
        _ => format!("local {lo}_misc{n} = {}\n", lit(rng)),
    };
    Chunk { kind: kind.to_string(), text }
}

/// The trailing chunk that makes a file a module (or not).
fn module_tail(rng: &mut Rng, g: &GenCtx, me: usize) -> Option<Chunk> {
    let up = g.markers[me].clone();
    let lo = up.to_lowercase();
    let text = match rng.below(5) {
        0 => return None,
        1 => format!("return {{ {lo}_val = {}, {lo}_fn = function() return 1 end }}\n", lit(rng)),
        2 => format!("---@class {up}Mod\nlocal {lo}_M = {{}}\n{lo}_M.{lo}_val = {}\nfunction {lo}_M.{lo}_mf() return {lo}_M.{lo}_val end\nreturn {lo}_M\n", lit(rng)),
        3 => format!("local {lo}_M = {{}}\n{lo}_M.{lo}_val = {}\nreturn {lo}_M\n", lit(rng)),
        _ => format!("---@export\nlocal {lo}_E = {{ {lo}_val = 1 }}\nreturn {lo}_E\n"),
    };
    Some(Chunk { kind: "module-return".into(), text })
}

/// Order-sensitive constructs get extra weight when `order_bias` is set (C11 workloads).
fn pick_kind(rng: &mut Rng, order_bias: bool) -> &'static str {
    const ORDER: &[&str] = &["global-conflict", "global-read", "class-shared", "class-shared-global", "use-shared", "alias-shared", "require", "call-other", "use-class", "table-extend", "enum-use", "class-sub", "table-extend-shared", "module-extend-shared", "module-extend-shared"];
    if order_bias && rng.chance(3, 5) || rng.chance(1, 3) {
        rng.pick(ORDER)
    } else {
        rng.pick(KINDS)
    }
}

pub struct GenOpts {
    pub min_files: usize,
    pub max_files: usize,
    pub max_chunks: usize,
    pub order_bias: bool,
}

impl Default for GenOpts {
    fn default() -> Self {
        GenOpts { min_files: 2, max_files: 8, max_chunks: 7, order_bias: false }
    }
}

pub fn gen_workspace(rng: &mut Rng, o: &GenOpts) -> Workspace {
    let nfiles = rng.range(o.min_files, o.max_files);
    let library = rng.chance(1, 3);
    let config = if rng.chance(2, 3) { 0 } else { rng.below(N_CONFIGS) };
    let mut markers = Vec::new();
    let mut modules = Vec::new();
    let mut paths = Vec::new();
    let mut roots = Vec::new();
    for i in 0..nfiles {
        let up = format!("F{i}");
        let lo = up.to_lowercase();
        let in_lib = library && i > 0 && (i == nfiles - 1 || rng.chance(1, 5));
        let (module, rel) = match rng.below(5) {
            0 => (lo.clone(), format!("{lo}.lua")),
            1 => (format!("pkg.{lo}"), format!("pkg/{lo}.lua")),
            2 => (format!("pkg.{lo}"), format!("pkg/{lo}/init.lua")),
            3 => (format!("pkg.sub.{lo}"), format!("pkg/sub/{lo}.lua")),
            _ => (format!("deep.{lo}.mod"), format!("deep/{lo}/mod.lua")),
        };
        markers.push(up);
        modules.push(module);
        roots.push(if in_lib { 1 } else { 0 });
        paths.push(format!("{}/{rel}", if in_lib { "lib" } else { "main" }));
    }
    let g = GenCtx { markers: markers.clone(), modules: modules.clone(), in_lib: roots.iter().map(|r| *r == 1).collect() };
    let mut files = Vec::new();
    for i in 0..nfiles {
        let mut chunks = Vec::new();
        let mut n = 0usize;
        if rng.chance(1, 6) {
            let t = if rng.bool() { "---@meta\n".to_string() } else { format!("---@meta {}\n", modules[i]) };
            chunks.push(Chunk { kind: "meta".into(), text: t });
        }
        // every file offers its small "API" with good probability so that cross-file uses resolve
        for k in ["class-own", "class-method", "func-own", "global-own", "table-global", "enum-own", "alias-own"] {
            if rng.chance(1, 2) {
                chunks.push(chunk(rng, &g, i, n, k));
                n += 1;
            }
        }
        let extra = rng.range(1, o.max_chunks);
        for _ in 0..extra {
            let k = pick_kind(rng, o.order_bias);
            chunks.push(chunk(rng, &g, i, n, k));
            n += 1;
        }
        // keep a leading meta chunk first, shuffle the rest lightly (uses may precede definitions)
        let start = if chunks.first().map(|c| c.kind == "meta").unwrap_or(false) { 1 } else { 0 };
        if rng.chance(1, 2) {
            rng.shuffle(&mut chunks[start..]);
        }
        if let Some(t) = module_tail(rng, &g, i) {
            chunks.push(t);
        }
        files.push(GenFile { path: paths[i].clone(), root: roots[i], marker: markers[i].clone(), module: modules[i].clone(), chunks });
    }
    Workspace { files, library, config }
}

/// Order-sensitive family: modules that `require` each other in a cycle (their analysis order is
/// not fixed by the dependency graph) and all claim the same field of one shared module table
/// with different types; a user file reads the field. Plus some ordinary chunks around.
pub fn gen_cycle_workspace(rng: &mut Rng) -> Workspace {
    let k = rng.range(2, 4); // files in the cycle
    let n = k + 2; // + shared module + user
    let markers: Vec<String> = (0..n).map(|i| format!("F{i}")).collect();
    let modules: Vec<String> = (0..n).map(|i| if rng.bool() { format!("f{i}") } else { format!("pkg.f{i}") }).collect();
    let paths: Vec<String> = modules.iter().map(|m| format!("main/{}.lua", m.replace('.', "/"))).collect();
    let g = GenCtx { markers: markers.clone(), modules: modules.clone(), in_lib: vec![false; n] };
    let lits = ["1", "\"text\"", "true", "{ a = 1 }", "function() return 1 end", "1.5"];
    let mut files = Vec::new();
    // file 0: the shared module
    let shared_tail = match rng.below(3) {
        0 => "local Shared = {}\nreturn Shared\n".to_string(),
        1 => "---@class F0Shared\nlocal Shared = {}\nShared.mode = nil\nreturn Shared\n".to_string(),
        _ => "local Shared = { mode = nil }\nreturn Shared\n".to_string(),
    };
    files.push(GenFile { path: paths[0].clone(), root: 0, marker: markers[0].clone(), module: modules[0].clone(), chunks: vec![Chunk { kind: "module-return".into(), text: shared_tail }] });
    // files 1..=k: the cycle
    for i in 1..=k {
        let next = if i == k { 1 } else { i + 1 };
        let lo = markers[i].to_lowercase();
        let mut chunks = Vec::new();
        if rng.chance(1, 3) {
            chunks.push(chunk(rng, &g, i, 0, "func-own"));
        }
        let text = format!(
            "local Shared = require(\"{}\")\nlocal {lo}_other = require(\"{}\")\nShared.mode = {}\nShared.from_{lo} = true\nreturn {{ {lo}_val = 1 }}\n",
            modules[0], modules[next], lits[(i + rng.below(2)) % lits.len()]
        );
        chunks.push(Chunk { kind: "require-cycle-claim".into(), text });
        files.push(GenFile { path: paths[i].clone(), root: 0, marker: markers[i].clone(), module: modules[i].clone(), chunks });
    }
    // last file: the user
    let u = n - 1;
    let lo = markers[u].to_lowercase();
    let mut text = format!("local Shared = require(\"{}\")\nlocal {lo}_mode = Shared.mode\n", modules[0]);
    for i in 1..=k {
        text.push_str(&format!("local {lo}_f{i} = Shared.from_{}\n", markers[i].to_lowercase()));
    }
    files.push(GenFile { path: paths[u].clone(), root: 0, marker: markers[u].clone(), module: modules[u].clone(), chunks: vec![Chunk { kind: "use-shared".into(), text }] });
    // registration order is part of the case: shuffle it
    let mut order: Vec<usize> = (0..n).collect();
    rng.shuffle(&mut order);
    let files = order.into_iter().map(|i| files[i].clone()).collect();
    Workspace { files, library: false, config: 0 }
}

/// An edited version of `chunks` (never equal to the original text).
pub fn edit_chunks(rng: &mut Rng, ws: &Workspace, file: usize, chunks: &[Chunk]) -> Vec<Chunk> {
    let g = GenCtx { markers: ws.files.iter().map(|f| f.marker.clone()).collect(), modules: ws.files.iter().map(|f| f.module.clone()).collect(), in_lib: ws.files.iter().map(|f| f.root == 1).collect() };
    let mut out = chunks.to_vec();
    let n_base = 100 + rng.below(800);
    let has_tail = out.last().map(|c| c.kind == "module-return").unwrap_or(false);
    let body_len = if has_tail { out.len() - 1 } else { out.len() };
    let start = if out.first().map(|c| c.kind == "meta").unwrap_or(false) { 1 } else { 0 };
    for round in 0..rng.range(1, 3) {
        match rng.below(6) {
            0 | 1 => {
                let k = pick_kind(rng, false);
                let pos = rng.range(start, body_len.min(out.len()));
                out.insert(pos.min(out.len()), chunk(rng, &g, file, n_base + round, k));
            }
            2 | 3 => {
                if out.len() > start {
                    let pos = rng.range(start, out.len() - 1);
                    out.remove(pos);
                }
            }
            4 => {
                if out.len() > start {
                    let pos = rng.range(start, out.len() - 1);
                    let k = out[pos].kind.clone();
                    if k != "meta" && k != "module-return" {
                        out[pos] = chunk(rng, &g, file, n_base + 10 + round, &k);
                    }
                }
            }
            _ => {
                // a half-typed line, as happens while editing
                let pos = rng.range(start, out.len());
                out.insert(pos.min(out.len()), Chunk { kind: "broken".into(), text: rng.pick(&["local = \n", "---@class\n", "function (\n", "x.y. = 1\n", "---@type\n"]).to_string() });
            }
        }
    }
    if chunks_text(&out) == chunks_text(chunks) {
        out.push(Chunk { kind: "broken".into(), text: "local\n".into() });
    }
    out
}

/// Which families of steps a history may contain.
#[derive(Clone, Copy, Debug, PartialEq, Eq)]
pub enum HistoryKind {
    /// only state-preserving steps: re-submit, batch re-submit, edit-then-restore (C08)
    Preserving,
    /// everything (C09)
    Full,
}

pub fn gen_history(rng: &mut Rng, ws: &Workspace, kind: HistoryKind, max_steps: usize) -> Vec<Step> {
    let nsteps = rng.range(1, max_steps.max(1));
    let mut m = Model::new(ws);
    let mut steps = Vec::new();
    let nf = ws.files.len();
    for _ in 0..nsteps {
        let present: Vec<usize> = (0..nf).filter(|i| m.present(*i)).collect();
        let removed: Vec<usize> = (0..nf).filter(|i| !m.present(*i)).collect();
        let roll = match kind {
            HistoryKind::Preserving => rng.below(50),
            HistoryKind::Full => rng.below(100),
        };
        let step = match roll {
            0..=19 if !present.is_empty() => Step::Resubmit { file: rng.pick(&present) },
            20..=29 if !present.is_empty() => {
                let mut fs = present.clone();
                rng.shuffle(&mut fs);
                fs.truncate(rng.range(1, fs.len()));
                if rng.chance(1, 4) {
                    let d = fs[0];
                    fs.push(d); // the same file twice in one batch
                }
                Step::BatchResubmit { files: fs }
            }
            30..=49 if !present.is_empty() => {
                let f = rng.pick(&present);
                let cur = m.cur[f].clone().unwrap_or_default();
                Step::EditRestore { file: f, edited: edit_chunks(rng, ws, f, &cur) }
            }
            50..=69 if !present.is_empty() => {
                let f = rng.pick(&present);
                let cur = m.cur[f].clone().unwrap_or_default();
                Step::Update { file: f, chunks: edit_chunks(rng, ws, f, &cur) }
            }
            70..=81 if present.len() > 1 => Step::Remove { file: rng.pick(&present), by_none: rng.chance(1, 4) },
            82..=89 if !removed.is_empty() => Step::ReAdd { file: rng.pick(&removed) },
            90..=93 => Step::Reindex,
            94..=95 => Step::Config { variant: rng.below(N_CONFIGS) },
            96..=99 => Step::ConfigReload { variant: rng.below(N_CONFIGS) },
            _ => {
                if let Some(f) = present.first() {
                    Step::Resubmit { file: *f }
                } else {
                    Step::Reindex
                }
            }
        };
        // keep the model in step (without an analysis)
        match &step {
            Step::Update { file, chunks } => m.cur[*file] = Some(chunks.clone()),
            Step::Remove { file, .. } => m.cur[*file] = None,
            Step::ReAdd { file } => m.cur[*file] = Some(ws.files[*file].chunks.clone()),
            Step::Config { variant } | Step::ConfigReload { variant } => m.config = *variant,
            _ => {}
        }
        steps.push(step);
    }
    steps
}

// ───────────────────────── shrinking helpers ─────────────────────────

/// Flattened view of a workspace for delta debugging: (file index, chunk).
pub fn flatten(ws: &Workspace) -> Vec<(usize, Chunk)> {
    ws.files.iter().enumerate().flat_map(|(i, f)| f.chunks.iter().cloned().map(move |c| (i, c))).collect()
}

/// Rebuilds a workspace from a subset of `flatten` (files keep their paths; empty files stay
/// registered with empty text so that file indices — and thus history steps — stay valid).
pub fn unflatten(ws: &Workspace, parts: &[(usize, Chunk)]) -> Workspace {
    let mut out = ws.clone();
    for f in &mut out.files {
        f.chunks.clear();
    }
    for (i, c) in parts {
        out.files[*i].chunks.push(c.clone());
    }
    out
}

/// Splits every chunk into one chunk per line (same kind) — second shrinking pass.
pub fn split_lines(ws: &Workspace) -> Workspace {
    let mut out = ws.clone();
    for f in &mut out.files {
        let mut v = Vec::new();
        for c in &f.chunks {
            for l in c.text.lines() {
                v.push(Chunk { kind: c.kind.clone(), text: format!("{l}\n") });
            }
        }
        f.chunks = v;
    }
    out
}

/// Drops the files whose index is not in `keep` and renumbers history steps accordingly.
pub fn restrict_files(ws: &Workspace, steps: &[Step], keep: &[usize]) -> (Workspace, Vec<Step>) {
    let mut map = vec![usize::MAX; ws.files.len()];
    let mut out = ws.clone();
    out.files.clear();
    for (new, old) in keep.iter().enumerate() {
        map[*old] = new;
        out.files.push(ws.files[*old].clone());
    }
    let mut st = Vec::new();
    for s in steps {
        let ns = match s {
            Step::Resubmit { file } if map[*file] != usize::MAX => Some(Step::Resubmit { file: map[*file] }),
            Step::BatchResubmit { files } => {
                let fs: Vec<usize> = files.iter().filter(|f| map[**f] != usize::MAX).map(|f| map[*f]).collect();
                if fs.is_empty() { None } else { Some(Step::BatchResubmit { files: fs }) }
            }
            Step::EditRestore { file, edited } if map[*file] != usize::MAX => Some(Step::EditRestore { file: map[*file], edited: edited.clone() }),
            Step::Update { file, chunks } if map[*file] != usize::MAX => Some(Step::Update { file: map[*file], chunks: chunks.clone() }),
            Step::Remove { file, by_none } if map[*file] != usize::MAX => Some(Step::Remove { file: map[*file], by_none: *by_none }),
            Step::ReAdd { file } if map[*file] != usize::MAX => Some(Step::ReAdd { file: map[*file] }),
            Step::Reindex => Some(Step::Reindex),
            Step::Config { variant } => Some(Step::Config { variant: *variant }),
            Step::ConfigReload { variant } => Some(Step::ConfigReload { variant: *variant }),
            _ => None,
        };
        if let Some(ns) = ns {
            st.push(ns);
        }
    }
    (out, st)
}

// ───────────────────────── cases (workspace + history) ─────────────────────────

/// How the initial, consistent analysis of a case is produced.
#[derive(Clone, Copy, Debug, Serialize, Deserialize, PartialEq, Eq)]
pub enum Setup {
    /// batch analysis in file-id order
    Sorted,
    /// files opened one by one, then `reindex()`
    OneByOneReindex,
    /// production batch update, then `reindex()`
    ProductionReindex,
    /// files opened one by one, no reindex (an editor session; not a "consistent" start for C08)
    OneByOne,
}

impl Setup {
    pub fn name(&self) -> &'static str {
        match self {
            Setup::Sorted => "sorted",
            Setup::OneByOneReindex => "one-by-one+reindex",
            Setup::ProductionReindex => "production+reindex",
            Setup::OneByOne => "one-by-one",
        }
    }
}

#[derive(Clone, Debug, Serialize, Deserialize, PartialEq, Eq)]
pub struct Case {
    pub ws: Workspace,
    pub setup: Setup,
    pub steps: Vec<Step>,
}

impl Case {
    pub fn start(&self) -> EmmyLuaAnalysis {
        match self.setup {
            Setup::Sorted => self.ws.build(Load::Sorted),
            Setup::OneByOne => self.ws.build(Load::OneByOne),
            Setup::OneByOneReindex => {
                let mut a = self.ws.build(Load::OneByOne);
                a.reindex();
                a
            }
            Setup::ProductionReindex => {
                let mut a = self.ws.build(Load::Production);
                a.reindex();
                a
            }
        }
    }
    pub fn to_json(&self) -> serde_json::Value {
        serde_json::to_value(self).expect("case serialises")
    }
    pub fn from_json(v: &serde_json::Value) -> Option<Case> {
        serde_json::from_value(v.clone()).ok()
    }
    pub fn fingerprint(&self) -> u64 {
        let s = serde_json::to_string(&self.steps).unwrap_or_default();
        crate::rng::mix(self.ws.fingerprint(), crate::rng::fnv(s.as_bytes()) ^ self.setup as u64)
    }
    /// sorted, de-duplicated kinds of the steps (for signatures)
    pub fn step_kinds(&self) -> Vec<String> {
        let mut k: Vec<String> = self.steps.iter().map(|s| s.kind().to_string()).collect();
        k.sort();
        k.dedup();
        k
    }
    /// constructs of the workspace and of the texts submitted by history steps
    pub fn kinds(&self) -> Vec<String> {
        let mut k = self.ws.kinds();
        for s in &self.steps {
            match s {
                Step::EditRestore { edited: c, .. } | Step::Update { chunks: c, .. } => k.extend(c.iter().map(|c| c.kind.clone())),
                _ => {}
            }
        }
        k.sort();
        k.dedup();
        k
    }
    pub fn describe(&self) -> String {
        let mut s = format!("setup={} config={} library={}\n", self.setup.name(), config_name(self.ws.config), self.ws.library);
        for f in &self.ws.files {
            s.push_str(&format!("-- {} --\n{}", f.path, f.text()));
        }
        for (i, st) in self.steps.iter().enumerate() {
            match st {
                Step::EditRestore { file, edited } => s.push_str(&format!("step {i}: edit-restore {} with edited text:\n{}", self.ws.files[*file].path, chunks_text(edited))),
                Step::Update { file, chunks } => s.push_str(&format!("step {i}: update {} to:\n{}", self.ws.files[*file].path, chunks_text(chunks))),
                other => s.push_str(&format!("step {i}: {}\n", serde_json::to_string(other).unwrap_or_default())),
            }
        }
        s
    }
}

/// Shrinks a failing case: over files, then chunks, then lines, then history steps (and the
/// texts inside steps), then configuration. `fails` must be (as good as) deterministic; it is
/// called at most `budget` times.
pub fn shrink_case(case: &Case, budget: usize, fails: &mut dyn FnMut(&Case) -> bool) -> Case {
    shrink_case_mode(case, budget, false, fails)
}

/// `steps_only`: shrink and canonicalise the history only (enough for the signature; used when
/// the same clause has already produced fully shrunk witnesses).
pub fn shrink_case_mode(case: &Case, budget: usize, steps_only: bool, fails: &mut dyn FnMut(&Case) -> bool) -> Case {
    let mut cur = case.clone();
    let mut left = budget;
    let mut test = |c: &Case, left: &mut usize| -> bool {
        if *left == 0 {
            return false;
        }
        *left -= 1;
        fails(c)
    };

    // 0. history steps first pass (cheap, makes everything after cheaper)
    if cur.steps.len() > 1 {
        let base = cur.clone();
        let steps = crate::util::ddmin(
            cur.steps.clone(),
            |s| {
                let mut c = base.clone();
                c.steps = s.to_vec();
                test(&c, &mut left)
            },
            120,
        );
        cur.steps = steps;
    }
    // 1. files
    if !steps_only && cur.ws.files.len() > 1 {
        let base = cur.clone();
        let idx: Vec<usize> = (0..cur.ws.files.len()).collect();
        let keep = crate::util::ddmin(
            idx,
            |keep| {
                let (ws, steps) = restrict_files(&base.ws, &base.steps, keep);
                test(&Case { ws, setup: base.setup, steps }, &mut left)
            },
            60,
        );
        if keep.len() < cur.ws.files.len() {
            let (ws, steps) = restrict_files(&cur.ws, &cur.steps, &keep);
            cur = Case { ws, setup: cur.setup, steps };
        }
    }
    // 2. chunks, 3. lines
    for pass in 0..2 {
        if steps_only {
            break;
        }
        if pass == 1 {
            let split = Case { ws: split_lines(&cur.ws), setup: cur.setup, steps: cur.steps.clone() };
            if !test(&split, &mut left) {
                break;
            }
            cur = split;
        }
        let base = cur.clone();
        let parts = flatten(&cur.ws);
        if parts.len() > 1 {
            let small = crate::util::ddmin(
                parts,
                |p| {
                    let mut c = base.clone();
                    c.ws = unflatten(&base.ws, p);
                    test(&c, &mut left)
                },
                400,
            );
            cur.ws = unflatten(&cur.ws, &small);
        }
        // ddmin never tries the empty list
        if !flatten(&cur.ws).is_empty() {
            let mut c = cur.clone();
            c.ws = unflatten(&cur.ws, &[]);
            if test(&c, &mut left) {
                cur = c;
            }
        }
    }
    // 4. history steps again, then the texts carried by steps
    if cur.steps.len() > 1 {
        let base = cur.clone();
        cur.steps = crate::util::ddmin(
            cur.steps.clone(),
            |s| {
                let mut c = base.clone();
                c.steps = s.to_vec();
                test(&c, &mut left)
            },
            60,
        );
    }
    if !cur.steps.is_empty() {
        let mut c = cur.clone();
        c.steps.clear();
        if test(&c, &mut left) {
            cur = c;
        }
    }
    // canonical step forms: a plain re-submission of one file is the simplest trigger
    for i in 0..cur.steps.len() {
        let cands: Vec<Step> = match &cur.steps[i] {
            Step::EditRestore { file, .. } => vec![Step::Resubmit { file: *file }],
            Step::BatchResubmit { files } => {
                let mut u = files.clone();
                u.sort();
                u.dedup();
                u.into_iter().map(|f| Step::Resubmit { file: f }).collect()
            }
            Step::Remove { file, by_none: true } => vec![Step::Remove { file: *file, by_none: false }],
            _ => vec![],
        };
        for cand in cands {
            let mut c = cur.clone();
            c.steps[i] = cand;
            if test(&c, &mut left) {
                cur = c;
                break;
            }
        }
    }
    for i in 0..cur.steps.len() {
        if steps_only {
            break;
        }
        let chunks = match &cur.steps[i] {
            Step::EditRestore { edited, .. } => edited.clone(),
            Step::Update { chunks, .. } => chunks.clone(),
            _ => continue,
        };
        let mut lines = Vec::new();
        for c in &chunks {
            for l in c.text.lines() {
                lines.push(Chunk { kind: c.kind.clone(), text: format!("{l}\n") });
            }
        }
        let base = cur.clone();
        let set = |c: &mut Case, v: Vec<Chunk>| match &mut c.steps[i] {
            Step::EditRestore { edited, .. } => *edited = v,
            Step::Update { chunks, .. } => *chunks = v,
            _ => {}
        };
        // empty text first
        let mut c = base.clone();
        set(&mut c, Vec::new());
        if test(&c, &mut left) {
            cur = c;
            continue;
        }
        if lines.len() > 1 {
            let small = crate::util::ddmin(
                lines,
                |p| {
                    let mut c = base.clone();
                    set(&mut c, p.to_vec());
                    test(&c, &mut left)
                },
                60,
            );
            set(&mut cur, small);
        }
    }
    if steps_only {
        return cur;
    }
    // 5. configuration, library root, setup
    if cur.ws.config != 0 {
        let mut c = cur.clone();
        c.ws.config = 0;
        if test(&c, &mut left) {
            cur = c;
        }
    }
    if cur.ws.library && cur.ws.files.iter().all(|f| f.root == 0) {
        let mut c = cur.clone();
        c.ws.library = false;
        if test(&c, &mut left) {
            cur = c;
        }
    }
    if cur.setup != Setup::Sorted {
        let mut c = cur.clone();
        c.setup = Setup::Sorted;
        if test(&c, &mut left) {
            cur = c;
        }
    }
    // drop files that ended up empty and are not touched by any step
    let touched: std::collections::BTreeSet<usize> = cur
        .steps
        .iter()
        .flat_map(|s| match s {
            Step::Resubmit { file } | Step::EditRestore { file, .. } | Step::Update { file, .. } | Step::Remove { file, .. } | Step::ReAdd { file } => vec![*file],
            Step::BatchResubmit { files } => files.clone(),
            _ => vec![],
        })
        .collect();
    let keep: Vec<usize> = (0..cur.ws.files.len()).filter(|i| !cur.ws.files[*i].chunks.is_empty() || touched.contains(i)).collect();
    if keep.len() < cur.ws.files.len() && !keep.is_empty() {
        let (ws, steps) = restrict_files(&cur.ws, &cur.steps, &keep);
        let c = Case { ws, setup: cur.setup, steps };
        if test(&c, &mut left) {
            cur = c;
        }
    }
    cur
}

/// Two fresh deterministic analyses of the same file list must give the same dump, otherwise
/// the case is C11 territory and C08–C10 do not judge it. Returns the dump when stable.
pub fn stable_dump(build: &dyn Fn() -> EmmyLuaAnalysis, samples: usize) -> Option<serde_json::Value> {
    let first = crate::observe::observe(&build());
    for _ in 1..samples.max(2) {
        let other = crate::observe::observe(&build());
        if other != first {
            return None;
        }
    }
    Some(first)
}


// ───────────────────────── structural line shapes (signatures) ─────────────────────────

fn rhs_shape(r: &str) -> &'static str {
    let r = r.trim();
    if r.starts_with('{') {
        "table"
    } else if r.starts_with("function") {
        "closure"
    } else if r.starts_with('"') || r.starts_with('\'') {
        "str"
    } else if r.starts_with(|c: char| c.is_ascii_digit()) {
        "num"
    } else if r == "nil" || r == "true" || r == "false" {
        "const"
    } else if r.starts_with("setmetatable") {
        "setmetatable"
    } else if r.starts_with("require") {
        "require"
    } else {
        let ident_end = r.find(|c: char| !(c.is_ascii_alphanumeric() || c == '_' || c == '.' || c == ':')).unwrap_or(r.len());
        let (head, rest) = r.split_at(ident_end);
        if head.is_empty() {
            "expr"
        } else if rest.trim_start().starts_with('(') {
            "call"
        } else if !rest.trim().is_empty() {
            "expr"
        } else if head.contains('.') {
            "index"
        } else {
            "name"
        }
    }
}

/// Identifier-free shape of one source line, e.g. `@class`, `desc`, `func`, `global=table`.
pub fn line_shape(line: &str) -> String {
    let t = line.trim();
    if t.is_empty() {
        return "blank".into();
    }
    if let Some(rest) = t.strip_prefix("---@") {
        let tag: String = rest.chars().take_while(|c| c.is_ascii_alphabetic()).collect();
        return format!("@{tag}");
    }
    if t.starts_with("--") {
        return "desc".into();
    }
    if t.starts_with("local function") || t.starts_with("function") {
        return "func".into();
    }
    if t.starts_with("return") {
        return "return".into();
    }
    for kw in ["for ", "if ", "while ", "end", "}", "repeat", "until", "else", "do"] {
        if t.starts_with(kw) {
            return "ctl".into();
        }
    }
    if let Some(rest) = t.strip_prefix("local ") {
        return match rest.find('=') {
            Some(i) => format!("local={}", rhs_shape(&rest[i + 1..])),
            None => "local".into(),
        };
    }
    if let Some(i) = t.find('=') {
        let lhs = t[..i].trim();
        if !lhs.is_empty() && lhs.chars().all(|c| c.is_ascii_alphanumeric() || c == '_' || c == '.') {
            let k = if lhs.contains('.') { "index" } else { "global" };
            return format!("{k}={}", rhs_shape(&t[i + 1..]));
        }
    }
    if t.ends_with(')') {
        return "call".into();
    }
    "other".into()
}

impl Case {
    /// sorted, de-duplicated line shapes of everything the case still contains
    pub fn shapes(&self) -> Vec<String> {
        let mut v: Vec<String> = Vec::new();
        for f in &self.ws.files {
            for c in &f.chunks {
                v.extend(c.text.lines().map(line_shape));
            }
        }
        for s in &self.steps {
            match s {
                Step::EditRestore { edited: c, .. } | Step::Update { chunks: c, .. } => {
                    for c in c {
                        v.extend(c.text.lines().map(line_shape));
                    }
                }
                _ => {}
            }
        }
        v.retain(|s| s != "blank");
        v.sort();
        v.dedup();
        v
    }
}


impl Case {
    /// Number of files that declare the type `name` (`---@class|alias|enum name`) in their
    /// current text or in a text a history step submits for them.
    pub fn files_declaring_type(&self, name: &str) -> usize {
        fn declares(text: &str, name: &str) -> bool {
            text.lines().any(|l| {
                let t = l.trim_start();
                (t.starts_with("---@class") || t.starts_with("---@alias") || t.starts_with("---@enum"))
                    && t.split(|c: char| !(c.is_ascii_alphanumeric() || c == '_' || c == '.')).any(|w| w == name)
            })
        }
        let mut n = 0;
        for (i, f) in self.ws.files.iter().enumerate() {
            let mut d = declares(&f.text(), name);
            for s in &self.steps {
                match s {
                    Step::EditRestore { file, edited: c } | Step::Update { file, chunks: c } if *file == i => d = d || declares(&chunks_text(c), name),
                    _ => {}
                }
            }
            if d {
                n += 1;
            }
        }
        n
    }
}
