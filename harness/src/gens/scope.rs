//! G-scope: programs over a 4-letter name alphabet that stress Lua's lexical scoping, plus the
//! **scoping oracle** (a plain scope-stack walk over the generator's own AST) and a second
//! printing mode ("xcheck") in which every declaration is bound to a distinct integer and every
//! use is recorded through `__probe(use_id, name)`, so that the oracle can be validated against
//! a real Lua implementation (luars) before it is used to judge /repo.
//!
//! Owned by the C13/C15/C41 family.

use crate::rng::Rng;
use std::collections::{BTreeMap, BTreeSet};

pub const NAMES: [&str; 4] = ["a", "b", "c", "d"];
pub const FIELDS: [&str; 3] = ["x", "y", "z"];

/// One occurrence of a name (declaration or use); `id` is unique in the program and >= 1.
#[derive(Clone, Debug, PartialEq)]
pub struct Occ {
    pub name: u8,
    pub id: u32,
}

#[derive(Clone, Copy, Debug, PartialEq, Eq)]
pub enum Attrib {
    None,
    Const,
    Close,
}

#[derive(Clone, Debug, PartialEq)]
pub enum Expr {
    Use(Occ),
    Int(i64),
    Str(u8),
    Nil,
    True,
    Bin(&'static str, Box<Expr>, Box<Expr>),
    Not(Box<Expr>),
    Call(Box<Expr>, Vec<Expr>),
    Index(Box<Expr>, u8),
    Func(Box<FuncBody>),
    Table(Vec<(Option<u8>, Expr)>),
    Paren(Box<Expr>),
}

#[derive(Clone, Debug, PartialEq)]
pub struct FuncBody {
    pub params: Vec<Occ>,
    pub body: Vec<Stmt>,
}

#[derive(Clone, Debug, PartialEq)]
pub enum Target {
    Name(Occ),
    Field(Expr, u8),
}

#[derive(Clone, Debug, PartialEq)]
pub struct Stmt {
    pub sid: u32,
    pub kind: StmtKind,
}

#[derive(Clone, Debug, PartialEq)]
pub enum StmtKind {
    Local { names: Vec<(Occ, Attrib)>, exprs: Vec<Expr> },
    Assign { targets: Vec<Target>, exprs: Vec<Expr> },
    LocalFunc { name: Occ, func: FuncBody },
    /// `function name[.path…][:method](params) body end` — `name` is a *use*.
    Func { name: Occ, path: Vec<u8>, method: Option<u8>, func: FuncBody },
    CallStat(Expr),
    Do(Vec<Stmt>),
    While(Expr, Vec<Stmt>),
    Repeat(Vec<Stmt>, Expr),
    If(Vec<(Expr, Vec<Stmt>)>, Option<Vec<Stmt>>),
    NumFor { var: Occ, start: Expr, limit: Expr, step: Option<Expr>, body: Vec<Stmt> },
    GenFor { vars: Vec<Occ>, exprs: Vec<Expr>, body: Vec<Stmt> },
    Return(Vec<Expr>),
    Break,
}

#[derive(Clone, Debug, PartialEq)]
pub struct Program {
    pub body: Vec<Stmt>,
}

// ───────────────────────────── generator ─────────────────────────────

#[derive(Clone, Copy, PartialEq, Eq, Debug)]
enum GKind {
    Plain,
    /// must not be assigned (for-loop variables are read-only in Lua 5.5; <const>/<close> locals)
    ReadOnly,
}

struct Gen<'a> {
    rng: &'a mut Rng,
    next_occ: u32,
    next_sid: u32,
    budget: i32,
    /// generator-side scope tracking, only to avoid assignments to read-only variables
    scopes: Vec<Vec<(u8, GKind)>>,
    loop_depth: Vec<u32>,
}

impl<'a> Gen<'a> {
    fn occ(&mut self, name: u8) -> Occ {
        self.next_occ += 1;
        Occ { name, id: self.next_occ }
    }
    fn name(&mut self) -> u8 {
        // skewed: collisions are the point
        match self.rng.below(10) {
            0..=4 => 0,
            5..=7 => 1,
            8 => 2,
            _ => 3,
        }
    }
    fn sid(&mut self) -> u32 {
        self.next_sid += 1;
        self.next_sid
    }
    fn lookup(&self, name: u8) -> Option<GKind> {
        for fr in self.scopes.iter().rev() {
            for (n, k) in fr.iter().rev() {
                if *n == name {
                    return Some(*k);
                }
            }
        }
        None
    }
    fn assignable_name(&mut self) -> Option<u8> {
        for _ in 0..6 {
            let n = self.name();
            if self.lookup(n) != Some(GKind::ReadOnly) {
                return Some(n);
            }
        }
        None
    }
    fn declare(&mut self, name: u8, k: GKind) {
        self.scopes.last_mut().unwrap().push((name, k));
    }

    fn leaf(&mut self) -> Expr {
        match self.rng.below(10) {
            0..=5 => {
                let n = self.name();
                Expr::Use(self.occ(n))
            }
            6..=7 => Expr::Int(self.rng.below(4) as i64),
            8 => Expr::Str(self.rng.below(3) as u8),
            _ => {
                if self.rng.bool() {
                    Expr::Nil
                } else {
                    Expr::True
                }
            }
        }
    }

    fn expr(&mut self, depth: u32) -> Expr {
        if depth == 0 || self.rng.chance(1, 2) {
            return self.leaf();
        }
        match self.rng.below(12) {
            0..=3 => {
                let op = self.rng.pick(&["+", "..", "==", "and", "or", "<"]);
                Expr::Bin(op, Box::new(self.expr(depth - 1)), Box::new(self.expr(depth - 1)))
            }
            4 => Expr::Not(Box::new(self.expr(depth - 1))),
            5..=6 => {
                let callee = self.callee(depth - 1);
                let n = self.rng.below(3);
                let args = (0..n).map(|_| self.expr(depth - 1)).collect();
                Expr::Call(Box::new(callee), args)
            }
            7 => {
                let p = self.prefix(depth - 1);
                Expr::Index(Box::new(p), self.rng.below(3) as u8)
            }
            8..=9 => Expr::Func(Box::new(self.func_body(false))),
            10 => {
                let n = self.rng.below(3);
                let fields = (0..n)
                    .map(|_| {
                        let k = if self.rng.bool() { Some(self.rng.below(3) as u8) } else { None };
                        (k, self.expr(depth - 1))
                    })
                    .collect();
                Expr::Table(fields)
            }
            _ => Expr::Paren(Box::new(self.expr(depth - 1))),
        }
    }

    fn prefix(&mut self, depth: u32) -> Expr {
        let n = self.name();
        let base = Expr::Use(self.occ(n));
        if depth > 0 && self.rng.chance(1, 4) {
            Expr::Index(Box::new(base), self.rng.below(3) as u8)
        } else {
            base
        }
    }

    fn callee(&mut self, depth: u32) -> Expr {
        if depth > 0 && self.rng.chance(1, 6) {
            Expr::Paren(Box::new(Expr::Func(Box::new(self.func_body(false)))))
        } else {
            self.prefix(depth)
        }
    }

    fn func_body(&mut self, implicit_self: bool) -> FuncBody {
        let _ = implicit_self;
        let np = match self.rng.below(6) {
            0 => 0,
            1..=3 => 1,
            4 => 2,
            _ => 3,
        };
        self.scopes.push(Vec::new());
        let saved_loops = std::mem::take(&mut self.loop_depth);
        let mut params = Vec::new();
        for _ in 0..np {
            let n = self.name();
            params.push(self.occ(n));
            self.declare(n, GKind::Plain);
        }
        let n_stmts = self.rng.range(0, 3);
        let mut body = self.block_inner(n_stmts, 2);
        if self.rng.chance(1, 3) {
            let e = self.expr(1);
            let sid = self.sid();
            body.push(Stmt { sid, kind: StmtKind::Return(vec![e]) });
        }
        self.loop_depth = saved_loops;
        self.scopes.pop();
        FuncBody { params, body }
    }

    /// statements of one block, generated in the *current* frame (caller pushes/pops)
    fn block_inner(&mut self, n: usize, depth: u32) -> Vec<Stmt> {
        let mut out = Vec::new();
        for _ in 0..n {
            if self.budget <= 0 {
                break;
            }
            self.budget -= 1;
            out.push(self.stmt(depth));
        }
        out
    }

    fn block(&mut self, depth: u32) -> Vec<Stmt> {
        self.scopes.push(Vec::new());
        let n = self.rng.range(0, 3);
        let b = self.block_inner(n, depth);
        self.scopes.pop();
        b
    }

    fn maybe_break(&mut self, body: &mut Vec<Stmt>) {
        if self.rng.chance(1, 8) {
            let sid = self.sid();
            body.push(Stmt { sid, kind: StmtKind::Break });
        }
    }

    fn stmt(&mut self, depth: u32) -> Stmt {
        let sid = self.sid();
        let compound_ok = depth > 0;
        let roll = self.rng.below(if compound_ok { 30 } else { 16 });
        let kind = match roll {
            0..=5 => {
                // local statement: 1–3 names, 0–3 exprs, duplicates likely
                let nn: usize = match self.rng.below(6) {
                    0..=2 => 1,
                    3..=4 => 2,
                    _ => 3,
                };
                let ne = match self.rng.below(6) {
                    0 => 0,
                    1..=3 => nn,
                    4 => nn.saturating_sub(1).max(1),
                    _ => nn + 1,
                };
                let exprs: Vec<Expr> = (0..ne).map(|_| self.expr(2)).collect();
                let mut names = Vec::new();
                let mut close_used = false;
                for _ in 0..nn {
                    let n = self.name();
                    let attr = match self.rng.below(12) {
                        0 => Attrib::Const,
                        1 if !close_used && false => Attrib::Close,
                        _ => Attrib::None,
                    };
                    if attr == Attrib::Close {
                        close_used = true;
                    }
                    names.push((self.occ(n), attr));
                }
                for (o, a) in &names {
                    let k = if *a == Attrib::None { GKind::Plain } else { GKind::ReadOnly };
                    self.scopes.last_mut().unwrap().push((o.name, k));
                }
                StmtKind::Local { names, exprs }
            }
            6..=8 => {
                let nt = if self.rng.chance(1, 4) { 2 } else { 1 };
                let mut targets = Vec::new();
                for _ in 0..nt {
                    if self.rng.chance(1, 4) {
                        let p = self.prefix(0);
                        targets.push(Target::Field(p, self.rng.below(3) as u8));
                    } else if let Some(n) = self.assignable_name() {
                        targets.push(Target::Name(self.occ(n)));
                    } else {
                        let p = self.prefix(0);
                        targets.push(Target::Field(p, 0));
                    }
                }
                let ne = self.rng.range(1, nt);
                let exprs = (0..ne).map(|_| self.expr(2)).collect();
                StmtKind::Assign { targets, exprs }
            }
            9..=11 => {
                let n = self.name();
                let name = self.occ(n);
                // the name is in scope inside its own body
                self.declare(n, GKind::Plain);
                let func = self.func_body(false);
                StmtKind::LocalFunc { name, func }
            }
            12..=13 => {
                let plain = self.rng.chance(1, 2);
                if plain {
                    match self.assignable_name() {
                        Some(n) => {
                            let name = self.occ(n);
                            let func = self.func_body(false);
                            StmtKind::Func { name, path: vec![], method: None, func }
                        }
                        None => StmtKind::CallStat(Expr::Call(Box::new(self.prefix(0)), vec![])),
                    }
                } else {
                    let n = self.name();
                    let name = self.occ(n);
                    let np = self.rng.below(2);
                    let path: Vec<u8> = (0..np).map(|_| self.rng.below(3) as u8).collect();
                    let method = if self.rng.bool() || path.is_empty() { Some(self.rng.below(3) as u8) } else { None };
                    let (path, method) = if path.is_empty() && method.is_none() { (vec![0u8], None) } else { (path, method) };
                    let func = self.func_body(method.is_some());
                    StmtKind::Func { name, path, method, func }
                }
            }
            14..=15 => {
                let callee = self.prefix(1);
                let n = self.rng.below(3);
                let args = (0..n).map(|_| self.expr(2)).collect();
                StmtKind::CallStat(Expr::Call(Box::new(callee), args))
            }
            16..=17 => StmtKind::Do(self.block(depth - 1)),
            18..=19 => {
                let c = self.expr(2);
                self.loop_depth.push(0);
                self.scopes.push(Vec::new());
                let n = self.rng.range(0, 3);
                let mut b = self.block_inner(n, depth - 1);
                self.maybe_break(&mut b);
                self.scopes.pop();
                self.loop_depth.pop();
                StmtKind::While(c, b)
            }
            20..=22 => {
                // repeat: body locals are visible in the condition
                self.loop_depth.push(0);
                self.scopes.push(Vec::new());
                let n = self.rng.range(1, 3);
                let b = self.block_inner(n, depth - 1);
                let c = self.expr(2);
                self.scopes.pop();
                self.loop_depth.pop();
                StmtKind::Repeat(b, c)
            }
            23..=24 => {
                let arms = self.rng.range(1, 3);
                let mut v = Vec::new();
                for _ in 0..arms {
                    let c = self.expr(2);
                    let b = self.block(depth - 1);
                    v.push((c, b));
                }
                let els = if self.rng.bool() { Some(self.block(depth - 1)) } else { None };
                StmtKind::If(v, els)
            }
            25..=27 => {
                let start = self.expr(1);
                let limit = self.expr(1);
                let step = if self.rng.chance(1, 3) { Some(self.expr(1)) } else { None };
                let n = self.name();
                let var = self.occ(n);
                self.loop_depth.push(0);
                self.scopes.push(vec![(n, GKind::ReadOnly)]);
                self.scopes.push(Vec::new());
                let k = self.rng.range(0, 3);
                let mut body = self.block_inner(k, depth - 1);
                self.maybe_break(&mut body);
                self.scopes.pop();
                self.scopes.pop();
                self.loop_depth.pop();
                StmtKind::NumFor { var, start, limit, step, body }
            }
            _ => {
                let ne = self.rng.range(1, 3);
                let exprs: Vec<Expr> = (0..ne).map(|_| self.expr(1)).collect();
                let nv = self.rng.range(1, 3);
                let mut vars = Vec::new();
                let mut frame = Vec::new();
                for _ in 0..nv {
                    let n = self.name();
                    vars.push(self.occ(n));
                    frame.push((n, GKind::ReadOnly));
                }
                self.loop_depth.push(0);
                self.scopes.push(frame);
                self.scopes.push(Vec::new());
                let k = self.rng.range(0, 3);
                let mut body = self.block_inner(k, depth - 1);
                self.maybe_break(&mut body);
                self.scopes.pop();
                self.scopes.pop();
                self.loop_depth.pop();
                StmtKind::GenFor { vars, exprs, body }
            }
        };
        Stmt { sid, kind }
    }
}

/// Generate a G-scope program with roughly `size` statements.
pub fn gen_program(rng: &mut Rng, size: usize) -> Program {
    let mut g = Gen { rng, next_occ: 0, next_sid: 0, budget: size as i32, scopes: vec![Vec::new()], loop_depth: vec![] };
    let mut body = Vec::new();
    while g.budget > 0 {
        g.budget -= 1;
        body.push(g.stmt(3));
    }
    if g.rng.chance(1, 4) {
        let e = g.expr(1);
        let sid = g.sid();
        body.push(Stmt { sid, kind: StmtKind::Return(vec![e]) });
    }
    Program { body }
}

// ───────────────────────────── printer ─────────────────────────────

#[derive(Clone, Copy, PartialEq, Eq, Debug)]
pub enum Mode {
    /// ordinary Lua text (analysed by the code under test, compiled by luars)
    Normal,
    /// every declaration bound to its occurrence id, every use wrapped in `__probe(id, name)`
    XCheck,
}

#[derive(Clone, Debug, Default)]
pub struct Printed {
    pub text: String,
    /// byte offset of the name token of every declaration occurrence
    pub decl_off: BTreeMap<u32, usize>,
    /// byte offset of the name token of every use occurrence
    pub use_off: BTreeMap<u32, usize>,
}

pub const XCHECK_PRELUDE: &str = "a, b, c, d = -1, -2, -3, -4\n\
local __cnt = {}\n\
function __e(...) return 0 end\n\
function __d(n, ...) local t = {...}; return table.unpack(t, 1, n) end\n\
function __c(f, ...) f(...); return 0 end\n\
function __w(id, ...) __cnt[id] = (__cnt[id] or 0) + 1; return __cnt[id] % 2 == 1 end\n\
function __t(i, ...) return __run == i end\n\
function __r(...) return true end\n\
function __s(v, ...) return v end\n\
function __it(n, ...) local t = {...}; local done = false; return function() if done then return nil end; done = true; return table.unpack(t, 1, n) end end\n";

struct Pr {
    mode: Mode,
    out: Printed,
    ind: usize,
}

impl Pr {
    fn w(&mut self, s: &str) {
        self.out.text.push_str(s);
    }
    fn nl(&mut self) {
        self.out.text.push('\n');
        for _ in 0..self.ind {
            self.out.text.push_str("  ");
        }
    }
    fn decl(&mut self, o: &Occ) {
        self.out.decl_off.insert(o.id, self.out.text.len());
        self.w(NAMES[o.name as usize]);
    }
    fn use_(&mut self, o: &Occ) {
        if self.mode == Mode::XCheck {
            self.w(&format!("__probe({}, ", o.id));
            self.out.use_off.insert(o.id, self.out.text.len());
            self.w(NAMES[o.name as usize]);
            self.w(")");
        } else {
            self.out.use_off.insert(o.id, self.out.text.len());
            self.w(NAMES[o.name as usize]);
        }
    }
    fn exprs(&mut self, es: &[Expr]) {
        for (i, e) in es.iter().enumerate() {
            if i > 0 {
                self.w(", ");
            }
            self.expr(e);
        }
    }
    /// xcheck: `, e1, e2` (leading comma) for a possibly empty list
    fn xlist(&mut self, es: &[&Expr]) {
        for e in es {
            self.w(", ");
            self.expr(e);
        }
    }
    fn func(&mut self, f: &FuncBody, explicit_self: bool) {
        self.w("function(");
        let mut first = true;
        if explicit_self {
            self.w("self");
            first = false;
        }
        for p in &f.params {
            if !first {
                self.w(", ");
            }
            first = false;
            self.decl(p);
        }
        self.w(")");
        self.block(&f.body);
        self.nl();
        self.w("end");
    }
    fn func_tail(&mut self, f: &FuncBody) {
        // "(params) body end" after `function name`
        self.w("(");
        for (i, p) in f.params.iter().enumerate() {
            if i > 0 {
                self.w(", ");
            }
            self.decl(p);
        }
        self.w(")");
        self.block(&f.body);
        self.nl();
        self.w("end");
    }
    fn param_ids(&mut self, f: &FuncBody, explicit_self: bool) {
        if explicit_self {
            self.w(", 0");
        }
        for p in &f.params {
            self.w(&format!(", {}", p.id));
        }
    }
    fn expr(&mut self, e: &Expr) {
        if self.mode == Mode::XCheck {
            match e {
                Expr::Use(o) => self.use_(o),
                Expr::Int(_) | Expr::Str(_) | Expr::Nil | Expr::True => self.w("0"),
                Expr::Bin(_, l, r) => {
                    self.w("__e(0");
                    self.xlist(&[l, r]);
                    self.w(")");
                }
                Expr::Not(x) | Expr::Paren(x) | Expr::Index(x, _) => {
                    self.w("__e(0");
                    self.xlist(&[x]);
                    self.w(")");
                }
                Expr::Call(f, args) => {
                    self.w("__e(0");
                    self.xlist(&[f]);
                    let v: Vec<&Expr> = args.iter().collect();
                    self.xlist(&v);
                    self.w(")");
                }
                Expr::Table(fs) => {
                    self.w("__e(0");
                    let v: Vec<&Expr> = fs.iter().map(|(_, e)| e).collect();
                    self.xlist(&v);
                    self.w(")");
                }
                Expr::Func(f) => {
                    self.w("__c(");
                    self.func(f, false);
                    self.param_ids(f, false);
                    self.w(")");
                }
            }
            return;
        }
        match e {
            Expr::Use(o) => self.use_(o),
            Expr::Int(i) => self.w(&i.to_string()),
            Expr::Str(i) => self.w(["\"s\"", "'t'", "[[u]]"][*i as usize % 3]),
            Expr::Nil => self.w("nil"),
            Expr::True => self.w("true"),
            Expr::Bin(op, l, r) => {
                self.w("(");
                self.expr(l);
                self.w(&format!(" {op} "));
                self.expr(r);
                self.w(")");
            }
            Expr::Not(x) => {
                self.w("(not ");
                self.expr(x);
                self.w(")");
            }
            Expr::Call(f, args) => {
                self.callee(f);
                self.w("(");
                self.exprs(args);
                self.w(")");
            }
            Expr::Index(p, f) => {
                self.callee(p);
                self.w(".");
                self.w(FIELDS[*f as usize % 3]);
            }
            Expr::Func(f) => self.func(f, false),
            Expr::Table(fs) => {
                self.w("{");
                for (i, (k, v)) in fs.iter().enumerate() {
                    if i > 0 {
                        self.w(", ");
                    }
                    if let Some(k) = k {
                        self.w(FIELDS[*k as usize % 3]);
                        self.w(" = ");
                    }
                    self.expr(v);
                }
                self.w("}");
            }
            Expr::Paren(x) => {
                self.w("(");
                self.expr(x);
                self.w(")");
            }
        }
    }
    /// print an expression in prefix-expression position
    fn callee(&mut self, e: &Expr) {
        match e {
            Expr::Use(_) | Expr::Index(..) | Expr::Call(..) | Expr::Paren(_) => self.expr(e),
            _ => {
                self.w("(");
                self.expr(e);
                self.w(")");
            }
        }
    }
    fn block(&mut self, b: &[Stmt]) {
        self.ind += 1;
        for (i, s) in b.iter().enumerate() {
            // a quarter of the statements follow their predecessor after a bare `;` on the same line
            // (`local x = 1;x = 2`): token adjacency must not change name resolution
            if i > 0 && s.sid % 4 == 0 {
                self.w(";");
            } else {
                self.nl();
            }
            self.stmt(s);
        }
        self.ind -= 1;
    }
    fn stmt(&mut self, s: &Stmt) {
        let x = self.mode == Mode::XCheck;
        match &s.kind {
            StmtKind::Local { names, exprs } => {
                self.w("local ");
                for (i, (o, a)) in names.iter().enumerate() {
                    if i > 0 {
                        self.w(", ");
                    }
                    self.decl(o);
                    match a {
                        Attrib::None => {}
                        Attrib::Const => self.w(" <const>"),
                        Attrib::Close => self.w(if x { " <const>" } else { " <close>" }),
                    }
                }
                if x {
                    self.w(&format!(" = __d({}", names.len()));
                    for (o, _) in names {
                        self.w(&format!(", {}", o.id));
                    }
                    let v: Vec<&Expr> = exprs.iter().collect();
                    self.xlist(&v);
                    self.w(")");
                } else if !exprs.is_empty() {
                    self.w(" = ");
                    self.exprs(exprs);
                }
            }
            StmtKind::Assign { targets, exprs } => {
                if x {
                    let names: Vec<&Occ> = targets.iter().filter_map(|t| if let Target::Name(o) = t { Some(o) } else { None }).collect();
                    if names.is_empty() {
                        self.w("__e(0");
                    } else {
                        for (i, o) in names.iter().enumerate() {
                            if i > 0 {
                                self.w(", ");
                            }
                            // plain name on the left-hand side: recorded through the value list
                            self.w(NAMES[o.name as usize]);
                        }
                        self.w(&format!(" = __d({}", names.len()));
                        for o in &names {
                            self.w(", ");
                            self.use_(o);
                        }
                    }
                    for t in targets {
                        if let Target::Field(p, _) = t {
                            self.xlist(&[p]);
                        }
                    }
                    let v: Vec<&Expr> = exprs.iter().collect();
                    self.xlist(&v);
                    self.w(")");
                } else {
                    for (i, t) in targets.iter().enumerate() {
                        if i > 0 {
                            self.w(", ");
                        }
                        match t {
                            Target::Name(o) => self.use_(o),
                            Target::Field(p, f) => {
                                self.callee(p);
                                self.w(".");
                                self.w(FIELDS[*f as usize % 3]);
                            }
                        }
                    }
                    self.w(" = ");
                    self.exprs(exprs);
                }
            }
            StmtKind::LocalFunc { name, func } => {
                self.w("local function ");
                self.decl(name);
                self.func_tail(func);
                if x {
                    // bind the name to its id *after* the definition (the body sees the variable,
                    // not the value) and then run the body once with the parameters' ids
                    let n = NAMES[name.name as usize];
                    self.w(&format!("; __tmp = {n}; {n} = {}; __c(__tmp", name.id));
                    self.param_ids(func, false);
                    self.w(")");
                }
            }
            StmtKind::Func { name, path, method, func } => {
                if x {
                    let assigns = path.is_empty() && method.is_none();
                    if assigns {
                        self.w(NAMES[name.name as usize]);
                        self.w(" = __d(1, ");
                        self.use_(name);
                    } else {
                        self.w("__e(0, ");
                        self.use_(name);
                    }
                    self.w(", __c(");
                    self.func(func, method.is_some());
                    self.param_ids(func, method.is_some());
                    self.w("))");
                } else {
                    self.w("function ");
                    self.use_(name);
                    for p in path {
                        self.w(".");
                        self.w(FIELDS[*p as usize % 3]);
                    }
                    if let Some(m) = method {
                        self.w(":");
                        self.w(FIELDS[*m as usize % 3]);
                    }
                    self.func_tail(func);
                }
            }
            StmtKind::CallStat(e) => {
                if x {
                    self.w("__e(0");
                    self.xlist(&[e]);
                    self.w(")");
                } else {
                    self.expr(e);
                }
            }
            StmtKind::Do(b) => {
                self.w("do");
                self.block(b);
                self.nl();
                self.w("end");
            }
            StmtKind::While(c, b) => {
                self.w("while ");
                if x {
                    self.w(&format!("__w({}", s.sid));
                    self.xlist(&[c]);
                    self.w(")");
                } else {
                    self.expr(c);
                }
                self.w(" do");
                self.block(b);
                self.nl();
                self.w("end");
            }
            StmtKind::Repeat(b, c) => {
                self.w("repeat");
                self.block(b);
                self.nl();
                self.w("until ");
                if x {
                    self.w("__r(0");
                    self.xlist(&[c]);
                    self.w(")");
                } else {
                    self.expr(c);
                }
            }
            StmtKind::If(arms, els) => {
                for (i, (c, b)) in arms.iter().enumerate() {
                    self.w(if i == 0 { "if " } else { "elseif " });
                    if x {
                        self.w(&format!("__t({i}"));
                        self.xlist(&[c]);
                        self.w(")");
                    } else {
                        self.expr(c);
                    }
                    self.w(" then");
                    self.block(b);
                    self.nl();
                }
                if let Some(b) = els {
                    self.w("else");
                    self.block(b);
                    self.nl();
                }
                self.w("end");
            }
            StmtKind::NumFor { var, start, limit, step, body } => {
                self.w("for ");
                self.decl(var);
                self.w(" = ");
                if x {
                    self.w(&format!("__s({}", var.id));
                    self.xlist(&[start]);
                    self.w(&format!("), __s({}", var.id));
                    self.xlist(&[limit]);
                    self.w(")");
                    if let Some(st) = step {
                        self.w(", __s(1");
                        self.xlist(&[st]);
                        self.w(")");
                    }
                } else {
                    self.expr(start);
                    self.w(", ");
                    self.expr(limit);
                    if let Some(st) = step {
                        self.w(", ");
                        self.expr(st);
                    }
                }
                self.w(" do");
                self.block(body);
                self.nl();
                self.w("end");
            }
            StmtKind::GenFor { vars, exprs, body } => {
                self.w("for ");
                for (i, v) in vars.iter().enumerate() {
                    if i > 0 {
                        self.w(", ");
                    }
                    self.decl(v);
                }
                self.w(" in ");
                if x {
                    self.w(&format!("__it({}", vars.len()));
                    for v in vars {
                        self.w(&format!(", {}", v.id));
                    }
                    let v: Vec<&Expr> = exprs.iter().collect();
                    self.xlist(&v);
                    self.w(")");
                } else {
                    self.exprs(exprs);
                }
                self.w(" do");
                self.block(body);
                self.nl();
                self.w("end");
            }
            StmtKind::Return(es) => {
                self.w("return ");
                if x {
                    self.w("__e(0");
                    let v: Vec<&Expr> = es.iter().collect();
                    self.xlist(&v);
                    self.w(")");
                } else {
                    self.exprs(es);
                }
            }
            StmtKind::Break => self.w("break"),
        }
    }
}

/// Print the program. In `XCheck` mode the text starts with `__run = <run>` and the prelude.
pub fn print(p: &Program, mode: Mode, run: u32) -> Printed {
    let mut pr = Pr { mode, out: Printed::default(), ind: 0 };
    if mode == Mode::XCheck {
        pr.w(&format!("__run = {run}\n"));
        pr.w(XCHECK_PRELUDE);
    }
    for (i, s) in p.body.iter().enumerate() {
        if i > 0 {
            pr.w(if s.sid % 4 == 0 { ";" } else { "\n" });
        }
        pr.stmt(s);
    }
    pr.w("\n");
    pr.out
}

// ───────────────────────────── scoping oracle ─────────────────────────────

#[derive(Clone, Copy, Debug, PartialEq, Eq, PartialOrd, Ord)]
pub enum DeclKind {
    Local,
    LocalFunc,
    Param,
    NumForVar,
    GenForVar,
}

impl DeclKind {
    pub fn tag(self) -> &'static str {
        match self {
            DeclKind::Local => "local",
            DeclKind::LocalFunc => "local-function",
            DeclKind::Param => "param",
            DeclKind::NumForVar => "numeric-for-var",
            DeclKind::GenForVar => "generic-for-var",
        }
    }
}

#[derive(Clone, Debug)]
pub struct DeclInfo {
    pub id: u32,
    pub name: u8,
    pub kind: DeclKind,
    /// statement (or, for params, the statement containing the function) that declares it
    pub sid: u32,
    /// identifies the declaration list (statement sid for locals/for-vars, first param id for params)
    pub list: u32,
}

#[derive(Clone, Debug)]
pub struct UseInfo {
    pub id: u32,
    pub name: u8,
    /// syntactic slot in which the use sits (innermost statement)
    pub ctx: &'static str,
    /// innermost statement containing the use
    pub sid: u32,
    /// the oracle's answer: Some(decl occurrence id) or None = global
    pub binding: Option<u32>,
    /// other declarations of the same name on the scope chain at this point (shadowed), nearest first
    pub shadowed: Vec<u32>,
    /// the use sits inside the body of the `local function` that it resolves to
    pub in_own_local_function: bool,
    /// the use sits in a repeat-until condition and resolves to a local of that repeat body
    pub repeat_body_local: bool,
    /// statements in whose *header* (for start/limit/step, generic-for explist, local right-hand
    /// side) the use sits, directly or nested inside closures: (statement id, header kind)
    pub in_headers: Vec<(u32, &'static str)>,
}

#[derive(Clone, Debug, Default)]
pub struct Resolution {
    pub decls: BTreeMap<u32, DeclInfo>,
    pub uses: BTreeMap<u32, UseInfo>,
}

struct Walk {
    res: Resolution,
    /// scope chain: frames of (name, decl id), innermost last
    frames: Vec<Vec<(u8, u32)>>,
    /// stack of local-function decl ids whose body we are inside
    in_local_funcs: Vec<u32>,
    headers: Vec<(u32, &'static str)>,
}

impl Walk {
    fn push(&mut self) {
        self.frames.push(Vec::new());
    }
    fn pop(&mut self) {
        self.frames.pop();
    }
    fn declare(&mut self, o: &Occ, kind: DeclKind, sid: u32, list: u32) {
        self.res.decls.insert(o.id, DeclInfo { id: o.id, name: o.name, kind, sid, list });
        self.frames.last_mut().unwrap().push((o.name, o.id));
    }
    fn use_(&mut self, o: &Occ, ctx: &'static str, sid: u32, repeat_frame: Option<usize>) {
        let mut found: Vec<(u32, usize)> = Vec::new();
        for (fi, fr) in self.frames.iter().enumerate().rev() {
            for (n, id) in fr.iter().rev() {
                if *n == o.name {
                    found.push((*id, fi));
                }
            }
        }
        let binding = found.first().map(|x| x.0);
        let in_own = binding.is_some_and(|b| self.in_local_funcs.contains(&b));
        let repeat_body_local = match (found.first(), repeat_frame) {
            (Some((_, fi)), Some(rf)) => *fi == rf,
            _ => false,
        };
        self.res.uses.insert(
            o.id,
            UseInfo {
                id: o.id,
                name: o.name,
                ctx,
                sid,
                binding,
                shadowed: found.iter().skip(1).map(|x| x.0).collect(),
                in_own_local_function: in_own,
                repeat_body_local,
                in_headers: self.headers.clone(),
            },
        );
    }
    fn expr(&mut self, e: &Expr, ctx: &'static str, sid: u32, rf: Option<usize>) {
        match e {
            Expr::Use(o) => self.use_(o, ctx, sid, rf),
            Expr::Int(_) | Expr::Str(_) | Expr::Nil | Expr::True => {}
            Expr::Bin(_, l, r) => {
                self.expr(l, ctx, sid, rf);
                self.expr(r, ctx, sid, rf);
            }
            Expr::Not(x) | Expr::Paren(x) | Expr::Index(x, _) => self.expr(x, ctx, sid, rf),
            Expr::Call(f, args) => {
                self.expr(f, ctx, sid, rf);
                for a in args {
                    self.expr(a, ctx, sid, rf);
                }
            }
            Expr::Table(fs) => {
                for (_, v) in fs {
                    self.expr(v, ctx, sid, rf);
                }
            }
            Expr::Func(f) => self.func(f, sid),
        }
    }
    fn func(&mut self, f: &FuncBody, sid: u32) {
        self.push();
        let list = f.params.first().map(|p| p.id).unwrap_or(0);
        for p in &f.params {
            self.declare(p, DeclKind::Param, sid, list);
        }
        // the body is the same block as the parameters' scope
        for s in &f.body {
            self.stmt(s);
        }
        self.pop();
    }
    fn block(&mut self, b: &[Stmt]) {
        self.push();
        for s in b {
            self.stmt(s);
        }
        self.pop();
    }
    fn stmt(&mut self, s: &Stmt) {
        let sid = s.sid;
        match &s.kind {
            StmtKind::Local { names, exprs } => {
                // Lua: the scope of a local begins *after* the declaring statement
                self.headers.push((sid, "local-rhs"));
                for e in exprs {
                    self.expr(e, "local-rhs", sid, None);
                }
                self.headers.pop();
                for (o, _) in names {
                    self.declare(o, DeclKind::Local, sid, sid);
                }
            }
            StmtKind::Assign { targets, exprs } => {
                for t in targets {
                    match t {
                        Target::Name(o) => self.use_(o, "assign-target", sid, None),
                        Target::Field(p, _) => self.expr(p, "assign-target-prefix", sid, None),
                    }
                }
                for e in exprs {
                    self.expr(e, "assign-rhs", sid, None);
                }
            }
            StmtKind::LocalFunc { name, func } => {
                // `local function f` ≡ `local f; f = function … end`: f is visible in its body
                self.declare(name, DeclKind::LocalFunc, sid, sid);
                self.in_local_funcs.push(name.id);
                self.func(func, sid);
                self.in_local_funcs.pop();
            }
            StmtKind::Func { name, func, .. } => {
                self.use_(name, "funcstat-name", sid, None);
                self.func(func, sid);
            }
            StmtKind::CallStat(e) => self.expr(e, "call-stat", sid, None),
            StmtKind::Do(b) => self.block(b),
            StmtKind::While(c, b) => {
                self.expr(c, "while-cond", sid, None);
                self.block(b);
            }
            StmtKind::Repeat(b, c) => {
                // the until-condition is evaluated inside the body's scope
                self.push();
                for st in b {
                    self.stmt(st);
                }
                let rf = self.frames.len() - 1;
                self.headers.push((sid, "repeat-until-cond"));
                self.expr(c, "repeat-until-cond", sid, Some(rf));
                self.headers.pop();
                self.pop();
            }
            StmtKind::If(arms, els) => {
                for (c, b) in arms {
                    self.expr(c, "if-cond", sid, None);
                    self.block(b);
                }
                if let Some(b) = els {
                    self.block(b);
                }
            }
            StmtKind::NumFor { var, start, limit, step, body } => {
                // header expressions are evaluated before the loop variable exists
                self.headers.push((sid, "numeric-for-header"));
                self.expr(start, "numeric-for-start", sid, None);
                self.expr(limit, "numeric-for-limit", sid, None);
                if let Some(st) = step {
                    self.expr(st, "numeric-for-step", sid, None);
                }
                self.headers.pop();
                self.push();
                self.declare(var, DeclKind::NumForVar, sid, sid);
                self.block(body);
                self.pop();
            }
            StmtKind::GenFor { vars, exprs, body } => {
                self.headers.push((sid, "generic-for-explist"));
                for e in exprs {
                    self.expr(e, "generic-for-explist", sid, None);
                }
                self.headers.pop();
                self.push();
                for v in vars {
                    self.declare(v, DeclKind::GenForVar, sid, sid);
                }
                self.block(body);
                self.pop();
            }
            StmtKind::Return(es) => {
                for e in es {
                    self.expr(e, "return-expr", sid, None);
                }
            }
            StmtKind::Break => {}
        }
    }
}

/// The scoping oracle: binding of every use according to Lua's lexical scoping rules.
pub fn resolve(p: &Program) -> Resolution {
    let mut w = Walk { res: Resolution::default(), frames: vec![Vec::new()], in_local_funcs: vec![], headers: vec![] };
    for s in &p.body {
        w.stmt(s);
    }
    w.res
}

// ───────────────────────────── shrinking helpers ─────────────────────────────

pub fn stmt_ids(p: &Program) -> Vec<u32> {
    fn rec(b: &[Stmt], out: &mut Vec<u32>) {
        for s in b {
            out.push(s.sid);
            match &s.kind {
                StmtKind::Local { exprs, .. } => exprs.iter().for_each(|e| rec_e(e, out)),
                StmtKind::Assign { targets, exprs } => {
                    for t in targets {
                        if let Target::Field(p, _) = t {
                            rec_e(p, out);
                        }
                    }
                    exprs.iter().for_each(|e| rec_e(e, out));
                }
                StmtKind::LocalFunc { func, .. } | StmtKind::Func { func, .. } => rec(&func.body, out),
                StmtKind::CallStat(e) => rec_e(e, out),
                StmtKind::Do(b) => rec(b, out),
                StmtKind::While(c, b) => {
                    rec_e(c, out);
                    rec(b, out);
                }
                StmtKind::Repeat(b, c) => {
                    rec(b, out);
                    rec_e(c, out);
                }
                StmtKind::If(arms, els) => {
                    for (c, b) in arms {
                        rec_e(c, out);
                        rec(b, out);
                    }
                    if let Some(b) = els {
                        rec(b, out);
                    }
                }
                StmtKind::NumFor { start, limit, step, body, .. } => {
                    rec_e(start, out);
                    rec_e(limit, out);
                    if let Some(s) = step {
                        rec_e(s, out);
                    }
                    rec(body, out);
                }
                StmtKind::GenFor { exprs, body, .. } => {
                    exprs.iter().for_each(|e| rec_e(e, out));
                    rec(body, out);
                }
                StmtKind::Return(es) => es.iter().for_each(|e| rec_e(e, out)),
                StmtKind::Break => {}
            }
        }
    }
    fn rec_e(e: &Expr, out: &mut Vec<u32>) {
        match e {
            Expr::Bin(_, l, r) => {
                rec_e(l, out);
                rec_e(r, out);
            }
            Expr::Not(x) | Expr::Paren(x) | Expr::Index(x, _) => rec_e(x, out),
            Expr::Call(f, a) => {
                rec_e(f, out);
                a.iter().for_each(|e| rec_e(e, out));
            }
            Expr::Table(fs) => fs.iter().for_each(|(_, e)| rec_e(e, out)),
            Expr::Func(f) => rec(&f.body, out),
            _ => {}
        }
    }
    let mut v = Vec::new();
    rec(&p.body, &mut v);
    v
}

/// Keep only statements whose id is in `keep` (a dropped statement disappears with its subtree).
pub fn retain(p: &Program, keep: &BTreeSet<u32>) -> Program {
    fn rb(b: &[Stmt], keep: &BTreeSet<u32>) -> Vec<Stmt> {
        b.iter().filter(|s| keep.contains(&s.sid)).map(|s| rs(s, keep)).collect()
    }
    fn rf(f: &FuncBody, keep: &BTreeSet<u32>) -> FuncBody {
        FuncBody { params: f.params.clone(), body: rb(&f.body, keep) }
    }
    fn re(e: &Expr, keep: &BTreeSet<u32>) -> Expr {
        match e {
            Expr::Bin(op, l, r) => Expr::Bin(op, Box::new(re(l, keep)), Box::new(re(r, keep))),
            Expr::Not(x) => Expr::Not(Box::new(re(x, keep))),
            Expr::Paren(x) => Expr::Paren(Box::new(re(x, keep))),
            Expr::Index(x, f) => Expr::Index(Box::new(re(x, keep)), *f),
            Expr::Call(f, a) => Expr::Call(Box::new(re(f, keep)), a.iter().map(|e| re(e, keep)).collect()),
            Expr::Table(fs) => Expr::Table(fs.iter().map(|(k, e)| (*k, re(e, keep))).collect()),
            Expr::Func(f) => Expr::Func(Box::new(rf(f, keep))),
            other => other.clone(),
        }
    }
    fn rs(s: &Stmt, keep: &BTreeSet<u32>) -> Stmt {
        let kind = match &s.kind {
            StmtKind::Local { names, exprs } => StmtKind::Local { names: names.clone(), exprs: exprs.iter().map(|e| re(e, keep)).collect() },
            StmtKind::Assign { targets, exprs } => StmtKind::Assign {
                targets: targets
                    .iter()
                    .map(|t| match t {
                        Target::Name(o) => Target::Name(o.clone()),
                        Target::Field(p, f) => Target::Field(re(p, keep), *f),
                    })
                    .collect(),
                exprs: exprs.iter().map(|e| re(e, keep)).collect(),
            },
            StmtKind::LocalFunc { name, func } => StmtKind::LocalFunc { name: name.clone(), func: rf(func, keep) },
            StmtKind::Func { name, path, method, func } => StmtKind::Func { name: name.clone(), path: path.clone(), method: *method, func: rf(func, keep) },
            StmtKind::CallStat(e) => StmtKind::CallStat(re(e, keep)),
            StmtKind::Do(b) => StmtKind::Do(rb(b, keep)),
            StmtKind::While(c, b) => StmtKind::While(re(c, keep), rb(b, keep)),
            StmtKind::Repeat(b, c) => StmtKind::Repeat(rb(b, keep), re(c, keep)),
            StmtKind::If(arms, els) => StmtKind::If(arms.iter().map(|(c, b)| (re(c, keep), rb(b, keep))).collect(), els.as_ref().map(|b| rb(b, keep))),
            StmtKind::NumFor { var, start, limit, step, body } => {
                StmtKind::NumFor { var: var.clone(), start: re(start, keep), limit: re(limit, keep), step: step.as_ref().map(|e| re(e, keep)), body: rb(body, keep) }
            }
            StmtKind::GenFor { vars, exprs, body } => StmtKind::GenFor { vars: vars.clone(), exprs: exprs.iter().map(|e| re(e, keep)).collect(), body: rb(body, keep) },
            StmtKind::Return(es) => StmtKind::Return(es.iter().map(|e| re(e, keep)).collect()),
            StmtKind::Break => StmtKind::Break,
        };
        Stmt { sid: s.sid, kind }
    }
    Program { body: rb(&p.body, keep) }
}

/// Structural one-step reductions (after statement-level ddmin): the `n`-th reduction site in a
/// deterministic traversal is applied; `None` when there are fewer than `n+1` sites.
///
/// Sites: a non-leaf expression → `0` or one of its direct sub-expressions; a compound statement
/// → its body spliced into the parent; removal of one element of a name / parameter / variable /
/// target / expression list; dropping an attribute, a step expression, an else branch, a
/// function-statement path.
pub fn reduce_nth(p: &Program, n: usize) -> Option<Program> {
    let mut r = Red { target: n, count: 0, done: false };
    let mut q = p.clone();
    r.block(&mut q.body);
    if r.done { Some(q) } else { None }
}

struct Red {
    target: usize,
    count: usize,
    done: bool,
}

impl Red {
    /// returns true when this site is the one to apply
    fn hit(&mut self) -> bool {
        if self.done {
            return false;
        }
        let h = self.count == self.target;
        self.count += 1;
        if h {
            self.done = true;
        }
        h
    }
    fn expr(&mut self, e: &mut Expr) {
        if self.done {
            return;
        }
        let children: Vec<Expr> = match e {
            Expr::Bin(_, l, r) => vec![(**l).clone(), (**r).clone()],
            Expr::Not(x) | Expr::Paren(x) | Expr::Index(x, _) => vec![(**x).clone()],
            Expr::Call(f, a) => {
                let mut v = vec![(**f).clone()];
                v.extend(a.iter().cloned());
                v
            }
            Expr::Table(fs) => fs.iter().map(|(_, e)| e.clone()).collect(),
            Expr::Func(_) => vec![],
            _ => return,
        };
        if self.hit() {
            *e = Expr::Int(0);
            return;
        }
        for c in children {
            if self.hit() {
                *e = c;
                return;
            }
        }
        match e {
            Expr::Bin(_, l, r) => {
                self.expr(l);
                self.expr(r);
            }
            Expr::Not(x) | Expr::Paren(x) | Expr::Index(x, _) => self.expr(x),
            Expr::Call(f, a) => {
                self.expr(f);
                for x in a.iter_mut() {
                    self.expr(x);
                }
            }
            Expr::Table(fs) => {
                for (_, x) in fs.iter_mut() {
                    self.expr(x);
                }
            }
            Expr::Func(f) => self.func(f),
            _ => {}
        }
    }
    fn func(&mut self, f: &mut FuncBody) {
        for i in 0..f.params.len() {
            if self.hit() {
                f.params.remove(i);
                return;
            }
        }
        self.block(&mut f.body);
    }
    fn exprs(&mut self, es: &mut Vec<Expr>, min: usize) {
        if es.len() > min {
            for i in 0..es.len() {
                if self.hit() {
                    es.remove(i);
                    return;
                }
            }
        }
        for e in es.iter_mut() {
            self.expr(e);
        }
    }
    fn block(&mut self, b: &mut Vec<Stmt>) {
        let mut i = 0;
        while i < b.len() && !self.done {
            // splice a compound statement's body into the parent
            let inner: Option<Vec<Stmt>> = match &b[i].kind {
                StmtKind::Do(x) | StmtKind::While(_, x) | StmtKind::Repeat(x, _) => Some(x.clone()),
                StmtKind::NumFor { body, .. } | StmtKind::GenFor { body, .. } => Some(body.clone()),
                StmtKind::If(arms, _) => arms.first().map(|a| a.1.clone()),
                _ => None,
            };
            if let Some(inner) = inner {
                if self.hit() {
                    let inner: Vec<Stmt> = inner.into_iter().filter(|s| !matches!(s.kind, StmtKind::Break)).collect();
                    b.splice(i..=i, inner);
                    return;
                }
            }
            // hoist the body of a closure that occurs in this statement (function statements,
            // closures in expressions) into the parent block
            for body in closure_bodies(&b[i]) {
                if self.hit() {
                    let inner: Vec<Stmt> = body.into_iter().filter(|s| !matches!(s.kind, StmtKind::Return(_))).collect();
                    b.splice(i..=i, inner);
                    return;
                }
            }
            self.stmt(&mut b[i]);
            i += 1;
        }
    }
    fn stmt(&mut self, s: &mut Stmt) {
        match &mut s.kind {
            StmtKind::Local { names, exprs } => {
                if names.len() > 1 {
                    for i in 0..names.len() {
                        if self.hit() {
                            names.remove(i);
                            if i < exprs.len() {
                                exprs.remove(i);
                            }
                            return;
                        }
                    }
                }
                for (_, a) in names.iter_mut() {
                    if *a != Attrib::None && self.hit() {
                        *a = Attrib::None;
                        return;
                    }
                }
                self.exprs(exprs, 0);
            }
            StmtKind::Assign { targets, exprs } => {
                if targets.len() > 1 {
                    for i in 0..targets.len() {
                        if self.hit() {
                            targets.remove(i);
                            return;
                        }
                    }
                }
                for t in targets.iter_mut() {
                    if let Target::Field(p, _) = t {
                        self.expr(p);
                    }
                }
                self.exprs(exprs, 1);
            }
            StmtKind::LocalFunc { func, .. } => self.func(func),
            StmtKind::Func { path, method, func, .. } => {
                if path.len() + method.iter().count() > 1 || (!path.is_empty() && method.is_none()) {
                    if self.hit() {
                        if !path.is_empty() {
                            path.pop();
                        } else {
                            *method = None;
                        }
                        return;
                    }
                }
                self.func(func)
            }
            StmtKind::CallStat(e) => {
                // keep it a call: reduce inside only
                if let Expr::Call(f, a) = e {
                    self.exprs(a, 0);
                    if let Expr::Index(..) = **f {
                        self.expr(f);
                        if !matches!(**f, Expr::Use(_) | Expr::Index(..) | Expr::Call(..) | Expr::Paren(_)) {
                            // must stay a prefix expression; Int(0) is printed parenthesised by `callee`
                        }
                    }
                }
            }
            StmtKind::Do(b) => self.block(b),
            StmtKind::While(c, b) => {
                self.expr(c);
                self.block(b);
            }
            StmtKind::Repeat(b, c) => {
                self.block(b);
                self.expr(c);
            }
            StmtKind::If(arms, els) => {
                if els.is_some() && self.hit() {
                    *els = None;
                    return;
                }
                if arms.len() > 1 {
                    for i in 0..arms.len() {
                        if self.hit() {
                            arms.remove(i);
                            return;
                        }
                    }
                }
                for (c, b) in arms.iter_mut() {
                    self.expr(c);
                    self.block(b);
                }
                if let Some(b) = els {
                    self.block(b);
                }
            }
            StmtKind::NumFor { start, limit, step, body, .. } => {
                if step.is_some() && self.hit() {
                    *step = None;
                    return;
                }
                self.expr(start);
                self.expr(limit);
                if let Some(st) = step {
                    self.expr(st);
                }
                self.block(body);
            }
            StmtKind::GenFor { vars, exprs, body } => {
                if vars.len() > 1 {
                    for i in 0..vars.len() {
                        if self.hit() {
                            vars.remove(i);
                            return;
                        }
                    }
                }
                self.exprs(exprs, 1);
                self.block(body);
            }
            StmtKind::Return(es) => self.exprs(es, 0),
            StmtKind::Break => {}
        }
    }
}

/// bodies of the outermost closures occurring in a statement (not descending into blocks)
fn closure_bodies(s: &Stmt) -> Vec<Vec<Stmt>> {
    fn ex(e: &Expr, out: &mut Vec<Vec<Stmt>>) {
        match e {
            Expr::Func(f) => out.push(f.body.clone()),
            Expr::Bin(_, l, r) => {
                ex(l, out);
                ex(r, out);
            }
            Expr::Not(x) | Expr::Paren(x) | Expr::Index(x, _) => ex(x, out),
            Expr::Call(f, a) => {
                ex(f, out);
                a.iter().for_each(|e| ex(e, out));
            }
            Expr::Table(fs) => fs.iter().for_each(|(_, e)| ex(e, out)),
            _ => {}
        }
    }
    let mut out = Vec::new();
    match &s.kind {
        StmtKind::Local { exprs, .. } | StmtKind::Return(exprs) => exprs.iter().for_each(|e| ex(e, &mut out)),
        StmtKind::Assign { targets, exprs } => {
            for t in targets {
                if let Target::Field(p, _) = t {
                    ex(p, &mut out);
                }
            }
            exprs.iter().for_each(|e| ex(e, &mut out));
        }
        StmtKind::LocalFunc { func, .. } | StmtKind::Func { func, .. } => out.push(func.body.clone()),
        StmtKind::CallStat(e) => ex(e, &mut out),
        StmtKind::While(c, _) | StmtKind::Repeat(_, c) => ex(c, &mut out),
        StmtKind::If(arms, _) => arms.iter().for_each(|(c, _)| ex(c, &mut out)),
        StmtKind::NumFor { start, limit, step, .. } => {
            ex(start, &mut out);
            ex(limit, &mut out);
            if let Some(s) = step {
                ex(s, &mut out);
            }
        }
        StmtKind::GenFor { exprs, .. } => exprs.iter().for_each(|e| ex(e, &mut out)),
        _ => {}
    }
    out
}

/// Number of name uses in the program.
pub fn count_uses(p: &Program) -> usize {
    resolve(p).uses.len()
}
