//! Shared driver for request-level checks on the SimServer (C25, C26): open one document and
//! fire position-taking / structure-returning requests at it.

use crate::rng::Rng;
use crate::sim::{Sim, SimOpts, block_on, path_uri};
use lsp_server::Response;
use serde_json::{Value, json};
use std::path::PathBuf;

/// Permissive line model for "inside the document": lines split at '\n' (the server's own
/// notion), a column may be counted in UTF-16 units or scalars (whichever is larger = UTF-16).
pub struct Lines {
    /// UTF-16 length of every line under the server-side split in force ('\n', '\r\n', lone '\r')
    pub lens_utf16: Vec<u32>,
    pub lens_scalar: Vec<u32>,
    /// the same under a '\n'-only split (accepted as well: which split is right is C23's subject)
    alt_utf16: Vec<u32>,
}

fn split_lsp(text: &str) -> Vec<&str> {
    let b = text.as_bytes();
    let mut out = Vec::new();
    let mut start = 0;
    let mut i = 0;
    while i < b.len() {
        if b[i] == b'\n' {
            out.push(&text[start..i]);
            start = i + 1;
        } else if b[i] == b'\r' {
            out.push(&text[start..i]);
            if b.get(i + 1) == Some(&b'\n') {
                i += 1;
            }
            start = i + 1;
        }
        i += 1;
    }
    out.push(&text[start..]);
    out
}

impl Lines {
    pub fn new(text: &str) -> Lines {
        let mut a = Vec::new();
        let mut b = Vec::new();
        for l in split_lsp(text) {
            a.push(l.encode_utf16().count() as u32);
            b.push(l.chars().count() as u32);
        }
        let alt = text.split('\n').map(|l| l.encode_utf16().count() as u32).collect();
        Lines { lens_utf16: a, lens_scalar: b, alt_utf16: alt }
    }
    pub fn count(&self) -> u32 {
        self.lens_utf16.len() as u32
    }
    /// longest admissible length of `line` in UTF-16 units over the accepted line models
    pub fn line_len_max(&self, line: u64) -> u64 {
        let a = self.lens_utf16.get(line as usize).copied().unwrap_or(0);
        let b = self.alt_utf16.get(line as usize).copied().unwrap_or(0);
        a.max(b) as u64
    }
    pub fn pos_in_doc(&self, line: u64, ch: u64) -> bool {
        let ok = |lens: &Vec<u32>| (line as usize) < lens.len() && ch <= lens[line as usize] as u64;
        ok(&self.lens_utf16) || ok(&self.alt_utf16)
    }
    /// position -> (line, char) tuple for ordering
    pub fn range_ok(&self, r: &Value) -> Result<((u64, u64), (u64, u64)), String> {
        let g = |v: &Value, k: &str| v[k].as_u64();
        let (s, e) = (&r["start"], &r["end"]);
        let (Some(sl), Some(sc), Some(el), Some(ec)) = (g(s, "line"), g(s, "character"), g(e, "line"), g(e, "character")) else {
            return Err(format!("malformed range {r}"));
        };
        if (sl, sc) > (el, ec) {
            return Err(format!("inverted range {r}"));
        }
        if !self.pos_in_doc(sl, sc) || !self.pos_in_doc(el, ec) {
            return Err(format!("range {r} outside the document ({} lines)", self.count()));
        }
        Ok(((sl, sc), (el, ec)))
    }
}

pub struct DocSession {
    pub sim: Sim,
    pub uri: lsp_types::Uri,
    pub text: String,
    pub lines: Lines,
    pub root: PathBuf,
}

static N: std::sync::atomic::AtomicU64 = std::sync::atomic::AtomicU64::new(0);

/// Start a server on a fresh workspace containing one helper module and open `text` as main.lua.
pub async fn open_session(work: &str, text: &str, extra_caps: Value) -> DocSession {
    let n = N.fetch_add(1, std::sync::atomic::Ordering::Relaxed);
    let root = PathBuf::from(format!("{work}/lspws-{}-{n}", std::process::id()));
    let _ = std::fs::remove_dir_all(&root);
    std::fs::create_dir_all(&root).expect("mkdir");
    std::fs::write(root.join("helper.lua"), "---@class Helper\n---@field name string\nlocal Helper = {}\nfunction Helper.new() return setmetatable({}, Helper) end\nreturn Helper\n").expect("write");
    let p = root.join("main.lua");
    std::fs::write(&p, text).expect("write");
    let sim = Sim::start(SimOpts { root: Some(root.clone()), pull_diagnostics: true, extra_caps, ..Default::default() }).await;
    let uri = path_uri(&p);
    let mut s = DocSession { sim, uri, text: text.to_string(), lines: Lines::new(text), root };
    let u = s.uri.clone();
    s.sim.did_open(&u, text, 1).await;
    s.sim.pump().await;
    s
}

impl DocSession {
    pub async fn call(&mut self, method: &str, params: Value) -> Option<Response> {
        self.sim.call(method, params, 120_000).await
    }
    pub fn td(&self) -> Value {
        json!({"uri": self.uri.as_str()})
    }
    pub fn close(self) {
        let _ = std::fs::remove_dir_all(&self.root);
    }
}

pub fn run_session<T>(work: &str, text: &str, extra_caps: Value, f: impl AsyncFnOnce(&mut DocSession) -> T) -> T {
    let work = work.to_string();
    let text = text.to_string();
    block_on(async move {
        let mut s = open_session(&work, &text, extra_caps).await;
        let out = f(&mut s).await;
        s.close();
        out
    })
}

/// (line, character) of every token boundary of `text`, computed with the plain '\n' / scalar model
/// the server uses (positions are only *inputs* here).
pub fn token_boundaries(text: &str) -> Vec<(u32, u32)> {
    let tree = emmylua_parser::LuaParser::parse(text, emmylua_parser::ParserConfig::default());
    let mut offs: Vec<usize> = Vec::new();
    for el in tree.get_red_root().descendants_with_tokens() {
        if let rowan::NodeOrToken::Token(t) = el {
            let r = t.text_range();
            offs.push(usize::from(r.start()));
            offs.push(usize::from(r.end()));
        }
    }
    offs.sort();
    offs.dedup();
    offs.into_iter().filter(|o| *o <= text.len() && text.is_char_boundary(*o)).map(|o| offset_to_pos(text, o)).collect()
}

pub fn offset_to_pos(text: &str, off: usize) -> (u32, u32) {
    let before = &text[..off];
    let lines = split_lsp(before);
    let line = (lines.len() - 1) as u32;
    let col = lines.last().map(|l| l.encode_utf16().count()).unwrap_or(0) as u32;
    (line, col)
}

pub fn sample<T: Clone>(rng: &mut Rng, xs: &[T], n: usize) -> Vec<T> {
    if xs.len() <= n {
        return xs.to_vec();
    }
    let mut idx: Vec<usize> = (0..xs.len()).collect();
    rng.shuffle(&mut idx);
    idx.truncate(n);
    idx.sort();
    idx.into_iter().map(|i| xs[i].clone()).collect()
}

pub fn pos(line: u32, ch: u32) -> Value {
    json!({"line": line, "character": ch})
}

/// Snippets that exercise specific LSP features (signature help on the various callable shapes,
/// completion triggers, array append, method chains, doc-tag completion, …). Documents of the
/// "feature-snippets" family are concatenations of a few of them, optionally cut short to look
/// like code that is being typed.
pub const FEATURE_SNIPPETS: &[&str] = &[
    "local t = {}\nsetmetatable(t, { __call = function() return 1 end })\nt()\nt(1, 2)\nt(\n",
    "local c = setmetatable({}, { __call = function(self, a, b) return a end })\nc(1, )\nc()\n",
    "local counter = setmetatable({}, {\n    __call = function()\n        return 1\n    end,\n})\nlocal y = counter()\nlocal z = counter( )\n",
    "local one = setmetatable({}, { __call = function(self) return self end })\none()\none( )()\n",
    "local k = setmetatable({}, { __call = function(...) return ... end, __index = function(t, key) return key end })\nk(k(), k.x)\n",
    "---@class Cls\n---@overload fun(): Cls\n---@overload fun(a: integer, b: string): Cls\nlocal Cls = {}\nCls()\nCls(1, )\n",
    "local arr = {1,2,3}\narr[#\n]\narr[#arr + 1] = 4\narr[#]\narr[#\n\n  ] = 5\n",
    "local s = 'x'\ns:\ns:up\ns.\nlocal n = #s\n",
    "local h = require(\"he\")\nh.\nh.new().\nlocal h2 = require('helper').new()\n",
    "---@param a integer\n---@param b? string\n---@return boolean\nlocal function f(a, b) return true end\nf(\nf(1,\nf(1, 'x')\nf(f(1), f())\n",
    "---@class P\n---@field x integer\n---@field y string\nlocal p = {}\np.x = 1\n---@type P\nlocal q = { x = , }\nq.\nq.x.\n",
    "---@enum E\nlocal E = { A = 1, B = 2 }\n---@param e E\nlocal function g(e) end\ng(E.)\ng()\ng(E.A, E.B)\n",
    "for i = 1, 10 do\n  if i % 2 == 0 then goto continue end\n  print(i)\n  ::continue::\nend\nfor k, v in pairs({}) do print(k, v) end\n",
    "---@generic T\n---@param x T\n---@return T\nlocal function id(x) return x end\nlocal v = id(\nlocal w = id(id(1))\n",
    "local function outer()\n  local function inner(a, b, ...)\n    return a, b, ...\n  end\n  return inner(1, 2, 3)\nend\nouter()()\n",
    "---@alias Mode 'r'|'w'\n---@param m Mode\nlocal function open(m) end\nopen('')\nopen(\"\nopen('r')\n",
    "local M = {}\nfunction M:method(a) return self end\nfunction M.static(a, b) end\nM:method(1):method(2):\nM.static(\nM:method(\n",
    "---@type fun(a: integer, ...: string): string\nlocal cb\ncb(\ncb(1, 'a', \n",
    "local str = string.format('%d', )\nprint(('x'):rep(3, ))\nprint((\"y\"):\n",
    "---@diagnostic disable-next-line: \n---@\n---@param \n---@type \n---@class \n---@field \nlocal dt\n",
    "return {\n  a = 1,\n  b = { c = function() end },\n  [1] = 'x',\n  ['k'] = {},\n}\n",
    "local a <const> = 1\nlocal b <close> = nil\nlocal c, d = a, \n",
    "---@class A\n---@operator call(integer): string\n---@operator add(A): A\n---@operator index(string): integer\n---@type A\nlocal a\na(1)\na(\nlocal r = a + a\nlocal i = a.anything\n",
    "---@class Base\n---@field id integer\n---@class Derived: Base\n---@field name string\n---@type Derived\nlocal d\nd.\nd:\nd.id.\n",
    "local co = coroutine.wrap(function(...) local x = ... end)\nco(\nlocal ok, err = pcall(function() error('x') end)\n",
    "---@param cb fun(err: string?, data: table)\nlocal function async(cb) end\nasync(function(err, data)\n  data.\nend)\nasync(function() end, )\n",
    "local t2 = { f = function(a) end, g = { h = function(self, b) end } }\nt2.f(\nt2.g:h(\nt2.g.h(\nt2['f'](\n",
    // multi-line lexical tokens with astral characters on their non-final lines (per-line semantic token pieces)
    "local s = [[ 😀 first\n second 😀😀 𝔘\n third]]\n--[[ c 😀\n 𝔘𝔘 x\n]]\nlocal t = 'a😀\\z\n   b'\n---@type string 😀 desc\nlocal u = [==[\n😀\n]==]\n",
    // call form x definition form x arity: dot-defined called with ':', colon-defined called with '.', zero parameters
    "local t = {}\nfunction t.f() end\nfunction t.g(a) end\nfunction t:m() end\nfunction t:n(a) end\nt:f()\nt:f(\nt:g()\nt:g(1, )\nt.m()\nt.m(\nt.n(t, )\nt:n()\nt:n(\n",
    "---@class K\n---@field f fun()\n---@field g fun(self: K)\n---@field h fun(a: integer)\n---@type K\nlocal k\nk:f()\nk:f(\nk:g(\nk.g(\nk:h(\nk.h(\n",
];

pub fn feature_doc(rng: &mut Rng) -> String {
    let n = rng.range(2, 5);
    let mut out = String::new();
    for _ in 0..n {
        let s: &str = rng.pick(FEATURE_SNIPPETS);
        if rng.chance(1, 4) {
            // being typed: cut at a random char boundary
            let mut cut = rng.range(1, s.len());
            while !s.is_char_boundary(cut) {
                cut -= 1;
            }
            out.push_str(&s[..cut]);
            out.push('\n');
        } else {
            out.push_str(s);
        }
    }
    out
}

/// every character offset of the text as a position (for small documents)
pub fn all_positions(text: &str) -> Vec<(u32, u32)> {
    let mut v: Vec<(u32, u32)> = text.char_indices().map(|(o, _)| offset_to_pos(text, o)).collect();
    v.push(offset_to_pos(text, text.len()));
    v.dedup();
    v
}
