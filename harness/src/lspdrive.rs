//! Shared driver for request-level checks on the SimServer (C25, C26): open one document and
//! fire position-taking / structure-returning requests at it.

use crate::rng::Rng;
use crate::sim::{Sim, SimOpts, block_on, path_uri};
use lsp_server::Response;
use serde_json::{Value, json};
use std::path::PathBuf;

/// Permissive line model for "inside the document": lines split at '\n' (the server's own
/// notion), a column may be counted in UTF-16 units or scalars (whichever is larger = UTF-16).
pub struct Lines {
    pub lens_utf16: Vec<u32>,
    pub lens_scalar: Vec<u32>,
}

impl Lines {
    pub fn new(text: &str) -> Lines {
        let mut a = Vec::new();
        let mut b = Vec::new();
        for l in text.split('\n') {
            a.push(l.encode_utf16().count() as u32);
            b.push(l.chars().count() as u32);
        }
        Lines { lens_utf16: a, lens_scalar: b }
    }
    pub fn count(&self) -> u32 {
        self.lens_utf16.len() as u32
    }
    pub fn pos_in_doc(&self, line: u64, ch: u64) -> bool {
        (line as usize) < self.lens_utf16.len() && ch <= self.lens_utf16[line as usize] as u64
    }
    /// position -> (line, char) tuple for ordering
    pub fn range_ok(&self, r: &Value) -> Result<((u64, u64), (u64, u64)), String> {
        let g = |v: &Value, k: &str| v[k].as_u64();
        let (s, e) = (&r["start"], &r["end"]);
        let (Some(sl), Some(sc), Some(el), Some(ec)) = (g(s, "line"), g(s, "character"), g(e, "line"), g(e, "character")) else {
            return Err(format!("malformed range {r}"));
        };
        if (sl, sc) > (el, ec) {
            return Err(format!("inverted range {r}"));
        }
        if !self.pos_in_doc(sl, sc) || !self.pos_in_doc(el, ec) {
            return Err(format!("range {r} outside the document ({} lines)", self.count()));
        }
        Ok(((sl, sc), (el, ec)))
    }
}

pub struct DocSession {
    pub sim: Sim,
    pub uri: lsp_types::Uri,
    pub text: String,
    pub lines: Lines,
    pub root: PathBuf,
}

static N: std::sync::atomic::AtomicU64 = std::sync::atomic::AtomicU64::new(0);

/// Start a server on a fresh workspace containing one helper module and open `text` as main.lua.
pub async fn open_session(work: &str, text: &str, extra_caps: Value) -> DocSession {
    let n = N.fetch_add(1, std::sync::atomic::Ordering::Relaxed);
    let root = PathBuf::from(format!("{work}/lspws-{}-{n}", std::process::id()));
    let _ = std::fs::remove_dir_all(&root);
    std::fs::create_dir_all(&root).expect("mkdir");
    std::fs::write(root.join("helper.lua"), "---@class Helper\n---@field name string\nlocal Helper = {}\nfunction Helper.new() return setmetatable({}, Helper) end\nreturn Helper\n").expect("write");
    let p = root.join("main.lua");
    std::fs::write(&p, text).expect("write");
    let sim = Sim::start(SimOpts { root: Some(root.clone()), pull_diagnostics: true, extra_caps, ..Default::default() }).await;
    let uri = path_uri(&p);
    let mut s = DocSession { sim, uri, text: text.to_string(), lines: Lines::new(text), root };
    let u = s.uri.clone();
    s.sim.did_open(&u, text, 1).await;
    s.sim.pump().await;
    s
}

impl DocSession {
    pub async fn call(&mut self, method: &str, params: Value) -> Option<Response> {
        self.sim.call(method, params, 120_000).await
    }
    pub fn td(&self) -> Value {
        json!({"uri": self.uri.as_str()})
    }
    pub fn close(self) {
        let _ = std::fs::remove_dir_all(&self.root);
    }
}

pub fn run_session<T>(work: &str, text: &str, extra_caps: Value, f: impl AsyncFnOnce(&mut DocSession) -> T) -> T {
    let work = work.to_string();
    let text = text.to_string();
    block_on(async move {
        let mut s = open_session(&work, &text, extra_caps).await;
        let out = f(&mut s).await;
        s.close();
        out
    })
}

/// (line, character) of every token boundary of `text`, computed with the plain '\n' / scalar model
/// the server uses (positions are only *inputs* here).
pub fn token_boundaries(text: &str) -> Vec<(u32, u32)> {
    let tree = emmylua_parser::LuaParser::parse(text, emmylua_parser::ParserConfig::default());
    let mut offs: Vec<usize> = Vec::new();
    for el in tree.get_red_root().descendants_with_tokens() {
        if let rowan::NodeOrToken::Token(t) = el {
            let r = t.text_range();
            offs.push(usize::from(r.start()));
            offs.push(usize::from(r.end()));
        }
    }
    offs.sort();
    offs.dedup();
    offs.into_iter().filter(|o| *o <= text.len() && text.is_char_boundary(*o)).map(|o| offset_to_pos(text, o)).collect()
}

pub fn offset_to_pos(text: &str, off: usize) -> (u32, u32) {
    let before = &text[..off];
    let line = before.matches('\n').count() as u32;
    let col = before.rsplit('\n').next().unwrap_or("").chars().count() as u32;
    (line, col)
}

pub fn sample<T: Clone>(rng: &mut Rng, xs: &[T], n: usize) -> Vec<T> {
    if xs.len() <= n {
        return xs.to_vec();
    }
    let mut idx: Vec<usize> = (0..xs.len()).collect();
    rng.shuffle(&mut idx);
    idx.truncate(n);
    idx.sort();
    idx.into_iter().map(|i| xs[i].clone()).collect()
}

pub fn pos(line: u32, ch: u32) -> Value {
    json!({"line": line, "character": ch})
}
