pub mod corpus;
pub mod gens;
pub mod props;
pub mod report;
pub mod rng;
pub mod util;
