// Generates the property registry from the files present in src/props/ (cNN.rs),
// so that adding a property is adding a file.
use std::io::Write;
fn main() {
    let dir = std::path::Path::new("src/props");
    let mut ids: Vec<String> = std::fs::read_dir(dir)
        .unwrap()
        .filter_map(|e| e.ok())
        .filter_map(|e| e.file_name().into_string().ok())
        .filter(|n| n.len() >= 6 && n.starts_with('c') && n.ends_with(".rs") && n[1..n.len() - 3].chars().all(|c| c.is_ascii_digit()))
        .map(|n| n[..n.len() - 3].to_string())
        .collect();
    ids.sort();
    let out = std::path::PathBuf::from(std::env::var("OUT_DIR").unwrap()).join("props_gen.rs");
    let mut f = std::fs::File::create(out).unwrap();
    let manifest = std::env::var("CARGO_MANIFEST_DIR").unwrap();
    for id in &ids {
        writeln!(f, "#[path = \"{manifest}/src/props/{id}.rs\"] pub mod {id};").unwrap();
    }
    writeln!(f, "pub fn run(ctx: &mut crate::report::Ctx) -> bool {{ match ctx.property.as_str() {{").unwrap();
    for id in &ids {
        writeln!(f, "\"{}\" => {id}::run(ctx),", id.to_uppercase()).unwrap();
    }
    writeln!(f, "_ => return false, }} true }}").unwrap();
    println!("cargo:rerun-if-changed=src/props");
}
