#!/usr/bin/env python3
"""Regenerates /verif/MANIFEST.json from scripts/props.py (claimed checks) and
scripts/not_applicable.json (everything not claimed, with a reason)."""
import json, os, sys
HERE = os.path.dirname(os.path.abspath(__file__))
VERIF = os.path.dirname(HERE)
sys.path.insert(0, HERE)
import props

ids = [json.loads(l)["id"] for l in open(os.path.join(VERIF, "properties.jsonl"))]
# only checks that were accepted by the coordinator (silent on the unchanged tree, calibrated) are claimed
enabled = set(open(os.path.join(HERE, "enabled.txt")).read().split())
props.PROPS = {k: v for k, v in props.PROPS.items() if k in enabled}
na_reasons = json.load(open(os.path.join(HERE, "not_applicable.json")))
hooks = json.load(open(os.path.join(HERE, "hooks.json")))
checks = []
for pid in ids:
    if pid not in props.PROPS:
        continue
    c = props.PROPS[pid]
    entry = {
        "property_id": pid,
        "quick_cmd": f"./check {pid} --tier quick",
        "thorough_cmd": f"./check {pid} --tier thorough",
        "evidence_file": f"/verif/evidence/{pid}.json",
        "replay_cmd_template": f"./check {pid} --replay {{path}}",
        "engine": c.get("engine", "E1"),
        "level_claimed": {"category": c.get("level", "exploration"), "text": c["level_text"], "design_ref": c.get("design_ref", "")},
        "level_note": c["level_note"],
        "technique": c["technique"],
    }
    checks.append(entry)
na = []
for pid in ids:
    if pid in props.PROPS:
        continue
    na.append({"property_id": pid, "reason": na_reasons.get(pid, "check not built yet in this session (runtime-monitoring design exists in DESIGN.md §4); not claimed")})
manifest = {
    "version": 1,
    "setup_cmd": "./check --build",
    "hooks": hooks,
    "engines": [
        {"name": "E1", "path": "harness/src/props", "kind_free_text": "in-process runtime monitors: generator -> real library call -> oracle, sharded over 16 worker processes", "serves_properties": [p for p in ids if props.PROPS.get(p, {}).get("engine") == "E1"]},
        {"name": "E2", "path": "harness/src/sim", "kind_free_text": "SimServer: the real LSP dispatch layer over an in-memory connection on a paused-clock current-thread tokio runtime with seeded schedule points; history checkers over the message/lock log", "serves_properties": [p for p in ids if props.PROPS.get(p, {}).get("engine") == "E2"]},
        {"name": "E3", "path": "scripts", "kind_free_text": "real binaries at their process boundary (stdio JSON-RPC, CLI exit status/files, strace fault injection)", "serves_properties": [p for p in ids if props.PROPS.get(p, {}).get("engine") == "E3"]},
        {"name": "E4", "path": "harness-miri", "kind_free_text": "sanitizers: Miri and ThreadSanitizer builds of the same workloads", "serves_properties": [p for p in ids if props.PROPS.get(p, {}).get("engine") == "E4"]},
    ],
    "checks": checks,
    "not_applicable": na,
    "notes": "Technique family: runtime monitoring and sanitizers. Every check rebuilds the harness (path dependencies on /repo/crates/*) from /repo's working tree with the verif_hooks feature on. Known findings: /verif/known_findings.txt. See DESIGN.md.",
}
json.dump(manifest, open(os.path.join(VERIF, "MANIFEST.json"), "w"), indent=1)
print(f"MANIFEST.json: {len(checks)} checks, {len(na)} not_applicable")
