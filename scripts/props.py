"""Per-property configuration of the checks (read by ./check and scripts/gen_manifest.py).

Each file scripts/props.d/<ID>.py defines PROP = {...} (see props.d/C01.py for the keys) and may
define EXTRA_BUILD(check_module) -> bool, run by `./check --build`.
"""
import glob
import importlib.util
import os
import sys

HERE = os.path.dirname(os.path.abspath(__file__))
sys.path.insert(0, HERE)
from props_common import COMMON_ASSUME  # noqa: F401,E402

EXTRA_BUILDS = []
PROPS = {}
for _f in sorted(glob.glob(os.path.join(HERE, "props.d", "C*.py"))):
    _id = os.path.basename(_f)[:-3]
    _spec = importlib.util.spec_from_file_location(f"props_d_{_id}", _f)
    _m = importlib.util.module_from_spec(_spec)
    _spec.loader.exec_module(_m)
    PROPS[_id] = _m.PROP
    if hasattr(_m, "custom"):
        PROPS[_id]["custom"] = _m.custom
    if hasattr(_m, "EXTRA_BUILD"):
        EXTRA_BUILDS.append(_m.EXTRA_BUILD)
