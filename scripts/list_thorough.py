#!/usr/bin/env python3
"""usage: list_thorough.py <ID> <out-file-of-the-run>  — appends one open: entry per unlisted signature of that run
(genuine defects seen at thorough scale; the witness replay is copied to findings/<ID>/)."""
import json, os, re, shutil, sys
pid, outf = sys.argv[1], sys.argv[2]
txt = open(outf, errors="replace").read()
n = 0
for m in re.finditer(r"^VIOLATION property=%s replay=(\S+)\n  signature: (.*)\n  detail: (.*)$" % pid, txt, re.M):
    rp, sig, det = m.groups()
    if ":rate-exceeds-known-finding" in sig:
        print("RATE", sig); continue
    os.makedirs(f"/verif/findings/{pid}", exist_ok=True)
    name = "thorough-" + os.path.basename(rp)
    if os.path.exists(rp):
        shutil.copy(rp, f"/verif/findings/{pid}/{name}")
    det = det.split("; shrunk")[0][:240]
    open("/verif/known_findings.txt", "a").write(f"\nopen: property={pid} sig={sig} seen at thorough scale only: {det}; witness findings/{pid}/{name}")
    n += 1
print("listed", n)
