"""Miri shards (thorough tier of C01 and C04): /verif/harness-miri interpreted by `cargo +nightly miri run`.

The binary parses small hostile inputs with a fresh configuration and through one shared rowan NodeCache, runs
the C01 (lossless, tiling, kind round trip through the parser's two transmutes) and C04 (cached parse == fresh
parse, re-parse == recorded parse) oracles on the trees, and Miri watches the interpretation for undefined
behaviour (invalid enum discriminants, out-of-bounds, use-after-free, uninitialised reads, leaks).

Aliasing model: rowan 0.16.1 (third-party) violates both of Miri's experimental aliasing models in its own
arc.rs / cursor.rs on the first token it interns (observed, see DESIGN.md §8), so the shards run with
-Zmiri-disable-stacked-borrows: every other UB class is still checked.

Verdicts: an oracle line `MIRI-VIOLATION property=<id> sig=…` is a violation of that property; a Miri
"Undefined Behavior" report whose backtrace has a frame in /repo/crates is a violation (C01:miri:ub:<first in-repo
frame>); a report with no in-repo frame, a build failure, a timeout or a missing summary is inconclusive.
"""
import json
import os
import re
import subprocess
import time
from concurrent.futures import ThreadPoolExecutor

VERIF = os.path.dirname(os.path.dirname(os.path.abspath(__file__)))
MIRI_DIR = os.path.join(VERIF, "harness-miri")


def _one(check, tdir, seed, shard, n, timeout):
    e = check.env_offline()
    e["MIRIFLAGS"] = "-Zmiri-disable-stacked-borrows"
    cmd = ["cargo", "+nightly", "miri", "run", "--offline", "--target-dir", tdir, "--", str(seed), str(shard), str(n)]
    t0 = time.time()
    try:
        p = subprocess.run(cmd, cwd=MIRI_DIR, env=e, stdout=subprocess.PIPE, stderr=subprocess.STDOUT, text=True, timeout=timeout)
        return {"shard": shard, "rc": p.returncode, "out": p.stdout, "wall": time.time() - t0, "timeout": False}
    except subprocess.TimeoutExpired as ex:
        out = ex.stdout.decode("utf-8", "replace") if isinstance(ex.stdout, bytes) else (ex.stdout or "")
        return {"shard": shard, "rc": None, "out": out, "wall": time.time() - t0, "timeout": True}


def run_miri(check, pid, seed, nshards, n, timeout=2400):
    """Returns (info, violations, inconclusive_reasons). `pid` selects which oracle lines count."""
    tdir = os.path.join(check.TARGET, "miri")
    # build once (also builds the Miri sysroot on first use), so that the shards do not race on the target dir
    first = _one(check, tdir, seed, 10_000, 1, timeout)
    if "MIRI-SUMMARY" not in first["out"]:
        if "Undefined Behavior" not in first["out"]:
            return {"miri": "build-or-first-run-failed", "tail": first["out"][-800:]}, [], ["miri-build-failed"]
    runs = [first]
    with ThreadPoolExecutor(max_workers=min(nshards, check.NCPU)) as ex:
        futs = [ex.submit(_one, check, tdir, seed, s, n, timeout) for s in range(nshards)]
        runs += [f.result() for f in futs]
    viol, incon = [], []
    tot = {"cases": 0, "tokens": 0, "nodes": 0, "ast_nodes_cast": 0, "c04_comparisons": 0}
    fams = {}
    completed = 0
    for r in runs:
        out = r["out"]
        for m in re.finditer(r"^MIRI-VIOLATION property=(\S+) sig=(\S+) detail=(.*)$", out, re.M):
            if m.group(1) == pid:
                viol.append({"sig": m.group(2), "detail": m.group(3)[:600] + f" [miri seed={seed} shard={r['shard']} n={n}]",
                             "replay": {"miri": {"seed": seed, "shard": r["shard"], "n": n}}, "confirmed": True})
        if "Undefined Behavior" in out:
            block = out[out.index("Undefined Behavior") - 7:][:6000]
            frames = re.findall(r"^\s+\d+: (\S.*)\n\s+at \S*/repo/crates/(\S+?):\d+", block, re.M)
            if frames:
                fn, f = frames[0]
                # UB in interpreted repo code concerns memory safety of producing the tree: reported under C01
                if pid == "C01":
                    viol.append({"sig": f"C01:miri:ub:{fn[:100]}", "detail": block[:1500], "replay": {"miri": {"seed": seed, "shard": r["shard"], "n": n}}, "confirmed": True})
            else:
                incon.append("miri-ub-report-without-in-repo-frame")
            continue
        m = re.search(r"^MIRI-SUMMARY (\{.*\})$", out, re.M)
        if r["timeout"]:
            incon.append("miri-shard-timeout")
        elif not m:
            incon.append("miri-shard-no-summary")
        else:
            s = json.loads(m.group(1))
            completed += 1
            for k in tot:
                tot[k] += s.get(k, 0)
            for k, v in s.get("families", {}).items():
                fams[k] = fams.get(k, 0) + v
    info = {"miri_shards": len(runs), "miri_shards_completed": completed, "miri_flags": "-Zmiri-disable-stacked-borrows",
            "miri_wall_s": round(sum(r["wall"] for r in runs), 1), "miri_families": fams}
    info.update({"miri_" + k: v for k, v in tot.items()})
    return info, viol, sorted(set(incon))


def custom_for(pid):
    def custom(check, pid_, cfg, tier, seed):
        run = check.run_sharded(pid_, cfg, tier, seed)
        extra_viol = []
        info = {"miri": "not run in the quick tier (thorough only)"}
        if tier == "thorough" or os.environ.get("VERIF_MIRI") == "1":
            scale = float(os.environ.get("VERIF_SCALE", "1") or 1)
            info, extra_viol, incon = run_miri(check, pid_, seed, 16, max(4, int(60 * scale)))
            if incon:
                info["miri_inconclusive"] = incon
        run["results"].append({"evaluations": 0, "fps": [], "clauses": {}, "inconclusive": {k: 1 for k in info.get("miri_inconclusive", [])},
                               "sig_counts": {}, "violations": [], "samples": [], "extra": info})
        run["nshards"] += 1
        return check.aggregate(pid_, cfg, tier, seed, run, extra_viol)
    return custom
