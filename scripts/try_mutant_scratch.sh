#!/bin/bash
# usage: try_mutant_scratch.sh <patch.diff> <PROP> [tier] [seed]
# Runs a check against a scratch copy of /repo with the patch applied (so /repo stays untouched).
PATCH=$1; P=$2; TIER=${3:-quick}; SEED=${4:-1}
S=/tmp/mt
mkdir -p $S
# files that rsync restores get their old mtime back, and cargo would keep the artefact built from the
# previous patch (source older than artefact = fresh): touch every file rsync had to update
rsync -ai --delete --exclude target --exclude .git /repo/ $S/repo/ | awk '/^>f/ {print $2}' | while read f; do touch "$S/repo/$f"; done
rsync -a --delete /verif/harness/ $S/harness/
(cd $S/repo && patch -p1 -s < "$PATCH") || { echo "PATCH DOES NOT APPLY"; exit 2; }
# touch patched files so cargo notices
grep '^+++ ' "$PATCH" | sed 's#^+++ b/##' | while read f; do touch "$S/repo/$f"; done
cd /verif
VERIF_REPO=$S/repo VERIF_HARNESS_DIR=$S/harness VERIF_TARGET=$S/target VERIF_EVIDENCE_DIR=$S/evidence VERIF_REPLAY_DIR=$S/replays VERIF_SEED=$SEED ./check $P --tier $TIER > $S/mut.$P.out 2>&1; rc=$?
echo "rc=$rc"; grep -E "^VIOLATION|^  signature|HELD|INCONCL|KNOWN" $S/mut.$P.out | cut -c1-240 | head -8
