#!/bin/bash
# usage: soak.sh <tier> <seed> [ids...]   — runs every claimed check once, one line per check in /verif/target/soak-<tier>-<seed>.log
TIER=$1; SEED=$2; shift 2
IDS=${@:-$(cat /verif/scripts/enabled.txt)}
LOG=/verif/target/soak-$TIER-$SEED.log
: > $LOG
for id in $IDS; do
  t0=$(date +%s)
  VERIF_SEED=$SEED /verif/check $id --tier $TIER > /verif/target/soak-$TIER-$SEED-$id.out 2>&1; rc=$?
  echo "$id rc=$rc $(( $(date +%s) - t0 ))s $(grep -E '^(HELD|NOT-HELD|INCONCLUSIVE)' /verif/target/soak-$TIER-$SEED-$id.out | tail -1 | cut -c1-200) viol=$(grep -c '^VIOLATION' /verif/target/soak-$TIER-$SEED-$id.out)" >> $LOG
done
echo DONE >> $LOG
