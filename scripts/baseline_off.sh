#!/bin/bash
# Runs the repository's own test suite with the verification guard OFF
# (no `verif_hooks` feature is enabled by the workspace build).
set -u
cd /repo || exit 2
export CARGO_NET_OFFLINE=true
if command -v cargo-nextest >/dev/null 2>&1 && [ -f /w/lib/nextest.toml ]; then
  exec cargo nextest run --workspace --no-fail-fast --tool-config-file pb:/w/lib/nextest.toml --profile pb --test-threads 8 --offline
else
  exec cargo test --workspace --no-fail-fast --offline
fi
