from props_common import COMMON_ASSUME

PROP = {
    "title": "Reported diagnostics are well-formed and complete for syntax errors",
    "engine": "E1",
    "level": "exploration",
    "technique": "runtime monitor: structural validator over every diagnostic returned by diagnose_file + parse-error-to-diagnostic completeness check",
    "design_ref": "§4 C21",
    "rule": "case = one file: fragment soup / harvested snippet verbatim / truncated at a random token / token-mutated / lossy random bytes / "
            "hand-picked syntax-error seeds; default or all-codes configuration; with or without the std library loaded; "
            "distinct = FNV of (text, config); non-trivial = the file produced >= 1 diagnostic",
    "min_nontrivial": {"quick": 100000, "thorough": 2000000},
    "max_secs": {"quick": 600, "thorough": 1500},
    "require_clauses": ["diagnostics-validated", "parse-errors-mapped", "family:soup", "family:corpus", "family:corpus-truncated",
                        "family:corpus-mutant", "family:lossy-bytes", "family:special", "cfg:default", "cfg:all-codes"],
    "assumptions": COMMON_ASSUME + [
        "a position is in-document if it is valid under LF-only or LSP line splitting, with UTF-16 or scalar columns (C23 decides which is right)",
        "files containing the words 'diagnostic' or 'meta' are exempt from the completeness clause (they may legitimately switch syntax-error off)",
        "a %{name} sequence that also occurs verbatim in the source text is not counted as an unsubstituted placeholder",
    ],
    "level_text": "Every diagnostic of every generated file is validated; parse errors are read from the same syntax tree the analysis used and must each have a (doc-)syntax-error diagnostic at the same range. Exploration, not proof.",
    "level_note": "Crashes inside indexing/diagnosing are counted (extra.panic:*) but belong to C12. Violations are confirmed in a fresh analysis before they are reported.",
}
