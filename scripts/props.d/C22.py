from props_common import COMMON_ASSUME

PROP = {
    "title": "Offsets and LSP positions convert consistently and stay in bounds",
    "engine": "E1",
    "level": "exploration",
    "technique": "runtime monitor: exhaustive offset<->position conversion per sampled text against an independent position model",
    "design_ref": "§4 C22",
    "rule": "cases = generated texts of 0-12 lines x 0-10 characters (ASCII / BMP / astral / combining, LF / CRLF / lone CR / mixed, with and without "
            "trailing newline) plus 14 fixed corner texts; per text EVERY char-boundary offset and EVERY (line, character) with line <= lines+2 and "
            "character <= longest line+3 goes through LineIndex and LuaDocument; distinct = FNV of the text (held or refuted); "
            "non-trivial = at least 2 lines and at least 4 bytes",
    "min_nontrivial": {"quick": 100000, "thorough": 2500000},
    "max_secs": {"quick": 600, "thorough": 1500},
    "require_clauses": ["a:roundtrip", "b:missing-line", "c:clamp"],
    "assumptions": COMMON_ASSUME + [
        "which unit a column counts and which characters end a line is C23's subject: a text is accepted when ONE of six self-consistent conventions "
        "(UTF-16 / scalar / UTF-8 columns x LF-only / LSP line splitting) explains every conversion",
        "a character past the end of a line may convert to the end of the line content, to an offset inside its terminator, or to the start of the next line "
        "(older reference clients clamp there); anything further is a violation",
        "offsets between the CR and LF of a CRLF are exempt from the round-trip clause under LSP line splitting (no position denotes them)",
    ],
    "level_text": "Every sampled text is checked exhaustively (all offsets, all positions in and 3 beyond range) against a position model written from the LSP "
                  "specification; 16 x 60 000 texts / ~7.7*10^8 conversions (quick), 16 x 600 000 texts (thorough). Exploration over texts, exhaustive within a text.",
    "level_note": "Texts are small (<= 13 lines x <= 10 characters); positions further than 3 beyond the range are not tried.",
}
