from props_common import COMMON_ASSUME

PROP = {
    "title": "Syntax trees are lossless for every input text",
    "engine": "E1",
    "level": "exploration",
    "technique": "runtime monitor: losslessness/tiling oracle over generated and mutated inputs; thorough adds Miri shards (cargo +nightly miri run of harness-miri: parser + rowan trees + kind transmutes interpreted for undefined behaviour while the same oracle runs)",
    "design_ref": "§4 C01",
    "rule": "cases = fragment soup / mutated corpus files / corpus verbatim / lossy random bytes / hand-picked recovery seeds x 8 language levels x doc on/off x shared NodeCache on/off; "
            "distinct = FNV of (text, level, doc); non-trivial = the produced tree has >= 8 tokens",
    "min_nontrivial": {"quick": 500000, "thorough": 5000000},
    "max_secs": {"quick": 600, "thorough": 1500},
    "require_clauses": ["a:text-equal", "b:tokens-tile", "family:soup", "family:corpus-mutant", "family:lossy-bytes", "family:special"],
    "assumptions": COMMON_ASSUME + ["inputs are UTF-8 strings <= 64 KiB (the API takes &str)"],
    "level_text": "Every generated input is parsed by the real LuaParser and an oracle checks byte-exact text equality and token tiling; ~400k (quick) to ~10M (thorough) inputs over all language levels. Exploration, not proof: it shows absence of loss on the inputs produced.",
    "level_note": "Trusts rowan's text()/text_range() accessors and the harness oracle; inputs limited to UTF-8 <= 64 KiB.",
}

from miri_shard import custom_for  # noqa: E402

custom = custom_for("C01")
