from props_common import COMMON_ASSUME

PROP = {
    "title": "LSP results are structurally valid",
    "engine": "E2",
    "level": "exploration",
    "technique": "runtime monitor: protocol-shape validators over the decoded results of the real handlers (SimServer): ranges in document, semantic-token delta decoding against the advertised legend, symbol nesting, folding ranges, selection-range chains, completion edits, workspace-edit overlap",
    "design_ref": "§4 C26",
    "rule": "cases = documents (corpus snippets incl. doc comments and markdown, mutated corpus, soup) x 9 whole-document requests (semanticTokens, documentSymbol, foldingRange, documentLink, documentColor, codeLens, inlayHint, formatting, pull diagnostics) + 9 position requests at 12 sampled token boundaries (hover, definition, references, documentHighlight, selectionRange, completion, prepareRename, rename, codeAction); "
            "distinct = FNV of the document; non-trivial = >= 20 returned structures were validated for it",
    "min_nontrivial": {"quick": 900, "thorough": 40000},
    "max_secs": {"quick": 600, "thorough": 1500},
    "require_clauses": ["validated:semanticTokens.token", "validated:documentSymbol.range", "validated:foldingRange", "validated:selectionRange", "validated:completion.textEdit", "validated:rename", "validated:references", "validated:definition", "validated:hover"],
    "assumptions": COMMON_ASSUME + ["'inside the document' uses a permissive line model (lines split at \\n, column <= UTF-16 length of the line) so that encoding questions are left to C23", "locations in other files are not judged"],
    "level_text": "Every structure the real handlers return for ~2400 (quick) documents is decoded and checked against the protocol's shape rules listed in the property.",
    "level_note": "Positions are sampled; completion lists are checked up to 400 items.",
}
