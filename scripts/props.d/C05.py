from props_common import COMMON_ASSUME

PROP = {
    "title": "Formatting never changes or loses code",
    "engine": "E1",
    "level": "exploration",
    "technique": "runtime monitor: reformat_lua_code on generated / corpus / mutated inputs x generated configurations; "
                 "independent token-stream oracle (own lexer, only configuration-enabled rewrites) + doc-structure comparison",
    "design_ref": "§4 C05",
    "rule": "cases = G-valid programs (5 Lua versions, 3 layouts, comments and generated doc annotations) / corpus snippets / std library files / "
            "mutated corpus (mostly syntax errors: clause 1) / doc-heavy generated annotation blocks / hand-written seeds / near-width lines, "
            "each x a LuaFormatConfig over every field (1/3 default, 1/3 few switches, 1/3 all random); "
            "distinct = FNV of (text, config); non-trivial = input has no syntax errors and >= 8 code tokens were compared",
    "min_nontrivial": {"quick": 2000, "thorough": 80000},
    "max_secs": {"quick": 600, "thorough": 1500},
    "require_clauses": ["1:errors-unchanged", "2:output-parses", "3:token-seq", "4:comments", "changed-by-formatting",
                        "family:g-valid", "family:corpus", "family:std-file", "family:corpus-mutant", "family:doc-heavy", "family:seed", "family:near-width"],
    "assumptions": COMMON_ASSUME + [
        "an input 'has syntax errors' iff emmylua's own parser reports a SyntaxError for it at the configured level (that is the formatter's gate)",
        "table separators ',' and ';' are one token class (the formatter always prints ','); empty statements may be dropped under every configuration",
        "comment structure is judged with the project's own doc parser on input and output",
    ],
    "level_text": "Every generated (input, configuration) pair is formatted by the real reformat_lua_code; an oracle with its own lexer compares the code tokens of input and output "
                  "modulo exactly the rewrites the configuration enables, the statement-kind sequence, and the comment/doc-annotation token sequence and doc tree. "
                  "Exploration: absence of loss is shown on the inputs produced, not proved.",
    "level_note": "Meaning is approximated by token identity plus statement structure, as the property states. Comments are compared through the project's own doc parser.",
}
