from props_common import COMMON_ASSUME

PROP = {
    "title": "require paths resolve to the files the configured patterns select",
    "engine": "E1",
    "level": "exploration",
    "technique": "runtime monitor in-process: generated workspace trees and require strings, the real EmmyLuaAnalysis / LuaModuleIndex::find_module / "
                 "semantic declaration and inferred type of require calls, against a reference resolver written from the documented behaviour; "
                 "repeated over fresh constructions and add/remove/re-add histories",
    "design_ref": "§4 C33",
    "rule": "case = virtual tree (3-12 module files, depth 1-3, segment names incl. suffix-related ones a/ba/ab, init.lua, main.lua, one or two main roots, "
            "library root outside or nested inside the main root, same relative path in two roots, X.lua next to X/init.lua, extensions .luau / *.txt, "
            "custom requirePattern lists, moduleMap prefix rewrites, strict.requirePath on/off) x history of 0-6 add/remove/touch steps (both removal "
            "entry points) x up to 24 require strings (every derivable module name, its suffixes, prefixed, slash form, mapped forms, unresolvable); "
            "distinct = FNV(case); non-trivial = >= 3 require strings resolved to the file(s) the reference selects and >= 1 correctly unresolvable",
    "min_nontrivial": {"quick": 2000, "thorough": 100000},
    "max_secs": {"quick": 600, "thorough": 1500},
    "require_clauses": ["obs:resolved", "obs:resolved-among-duplicates", "obs:unresolvable-ok", "obs:step-exact", "obs:step-fuzzy", "obs:step-mapped-exact",
                        "obs:determinism-compared", "obs:type-compared", "obs:definition-compared", "obs:history-steps"],
    "assumptions": COMMON_ASSUME + [
        "documented behaviour used by the reference: patterns = ?.<ext> for every extension plus ?/init.<ext> or the configured requirePattern list, longest "
        "pattern first; a file's module name is taken relative to the innermost workspace root containing it; moduleMap rewrites module names and, when the "
        "exact lookup fails, the require string; suffix (fuzzy) lookup on a `.` boundary only when strict.requirePath is off",
        "where several files own a name, where a file has several names through several roots, and for the ranking among fuzzy candidates the reference "
        "accepts every candidate (counted as resolved-among-duplicates / unspecified) and only determinism across fresh constructions is required",
        "a choice that differs between an edit history and a fresh construction of the same final file set is not judged (different inputs)",
    ],
    "level_text": "Every generated (tree, configuration, history, require string) is resolved by the real module index and compared with the reference; "
                  "4 fresh constructions per case (12-16 when shrinking/replaying) expose hash-order dependent choices; type and declaration of the "
                  "require call must name the same file as find_module.",
    "level_note": "Exploration; moduleMap limited to prefix rewrites, patterns to one `?`; go-to-definition is observed through the semantic declaration "
                  "of the require call (the LSP handler itself calls find_module on the string).",
}
