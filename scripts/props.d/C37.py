from props_common import COMMON_ASSUME

PROP = {
    "title": "Doc-comment markup highlighting is total and in bounds",
    "engine": "E1",
    "level": "exploration",
    "technique": "runtime monitor: emmylua_parser_desc::parse on generated doc comments for every flavour and a sweep of cursor positions, executed in a disposable child process watched by CPU time (termination), range/sortedness oracle",
    "design_ref": "§4 C37",
    "rule": "cases = 1-10 (every 40th: up to 60) comment lines built from 90 block starts (headings, quotes, lists, fences of all lengths and languages, MyST / RST directives, "
            "tables, field lists), 100 inline fragments (emphasis, code, links, roles, javadoc links, unterminated forms, multi-byte text) and 40 code lines for the "
            "embedded lexers, under 20 comment prefixes (---, --, ----, ---@param .., long brackets), LF or CRLF; plus 1/12 G-soup texts; every LuaDocDescription x "
            "8 flavours (Md, MyST +-domain, RST +-domain +-default role) x cursor None / every 8th offset / out-of-range offsets; distinct = FNV of the text; "
            "non-trivial = some parse call returned >= 3 items",
    "min_nontrivial": {"quick": 30000, "thorough": 1000000},
    "max_secs": {"quick": 600, "thorough": 1500},
    "require_clauses": ["a:no-panic", "b:in-bounds", "c:sorted", "family:markup", "family:soup"],
    "assumptions": COMMON_ASSUME + [
        "'inside the description' = inside the LuaDocDescription node, extended to the start of the '---' token directly in front of it (the description parser "
        "reads the rest of that token as the first line); items starting in that token are counted separately",
        "'sorted' = item starts are non-decreasing; the implementation's own tie-break (longer first, scopes first) is counted, not judged",
        "termination: more than 2 s CPU for one text (normal: 0.2-20 ms) = overrun; attributed to one flavour, shrunk, and confirmed in a fresh child with 8 s CPU, else inconclusive",
    ],
    "level_text": "Generated doc comments are parsed by the real Lua parser and every description is highlighted in 8 flavours with many cursor positions; panics, "
                  "out-of-bounds or unsorted items are violations. 16 x 6 000 texts / ~25 million parse calls (quick), 16 x 250 000 texts (thorough).",
    "level_note": "The Miri shard of the design is not part of this check.",
}
