from props_common import COMMON_ASSUME

PROP = {
    "title": "Removed files leave no trace",
    "engine": "E1",
    "level": "exploration",
    "technique": "runtime monitor: marker/path scan of the observable dump after generated removals + census of syntactic indexes and Vfs maps against a fresh analysis of the survivors",
    "design_ref": "§4 C10",
    "rule": "case = generated workspace (3-8 files, every file with a unique path and a unique marker in all names and doc texts it declares) + optional edits + removal of 1-3 files "
            "in random order (remove_file_by_uri, 1/5 update_file_by_uri(u, None)) + optional re-submissions of survivors; every string of the dump is scanned; "
            "distinct = hash of (texts, config, setup, steps); non-trivial = >= 1 file removed, >= 1 survivor, >= 50 strings scanned",
    "min_nontrivial": {"quick": 500, "thorough": 10000},
    "max_secs": {"quick": 600, "thorough": 1500},
    "require_clauses": ["a:no-path-of-removed-file", "b:no-symbol-or-doc-of-removed-file", "c:census-released", "step:remove", "step:remove-by-none"],
    "assumptions": COMMON_ASSUME + [
        "analysis level only (EmmyLuaAnalysis API): workspace symbols / completion of the LSP layer are represented by the index sections of the dump (globals, types, members, modules)",
        "stale values in results of surviving files that do not point into a removed file are not judged",
    ],
    "level_text": "Every generated removal history is executed against the real EmmyLuaAnalysis and the complete observable dump is scanned for paths, markers and documentation of removed files; syntactic index sizes must equal those of a fresh analysis of the survivors. Exploration, not a proof.",
    "level_note": "update_file_by_uri(u, None) keeps the uri<->id mapping of the Vfs by design; those two maps are exempt for that removal mode. LSP-level didClose/watched-file paths are covered by C27-C30 style monitors, not here.",
}
