from props_common import COMMON_ASSUME

PROP = {
    "title": "Valid Lua is never reported as a syntax error",
    "engine": "E1",
    "level": "exploration",
    "technique": "runtime monitor: grammar-generated programs valid by construction per Lua version (own AST) and single-mutation invalid programs, "
                 "through LuaParser::parse and EmmyLuaAnalysis::diagnose_file; luars (Lua 5.5) compile-only as second reference for 5.5",
    "design_ref": "§4 C03",
    "rule": "cases = G-valid(v) programs, v in 5.1..5.5 (60%), one of 12 grammar-breaking mutations of such a program (30%), a construct of a newer version in front of a valid program (10%); "
            "3 layouts (pretty / compact / random whitespace and comments); distinct = FNV of the multiset of grammar productions used (+ version, + mutation); "
            "non-trivial = >= 12 distinct productions",
    "min_nontrivial": {"quick": 3000, "thorough": 80000},
    "max_secs": {"quick": 600, "thorough": 1500},
    "require_clauses": ["valid-parse", "valid-diag", "invalid-rejected", "newer-feature-rejected", "luars-agrees",
                        "version:5.1", "version:5.2", "version:5.3", "version:5.4", "version:5.5"],
    "assumptions": COMMON_ASSUME + [
        "no PUC Lua in the sandbox: for 5.1-5.4 the reference is the manual grammar as encoded in gens/valid.rs; for 5.5 a case is judged only when construction and luars agree",
        "luars' lexer shares ancestry with emmylua's (same author), so it is an independent opinion on grammar, less so on literal lexing",
        "semantic compile errors of luac (goto into a local's scope, assignment to <const>, break outside loop) are avoided by the generator and not tested",
    ],
    "level_text": "Each generated program is parsed by the real parser at its version and diagnosed by the real analysis with runtime.version set; valid programs must have no syntax error "
                  "at either observation point, invalid ones at least one. Exploration over generated programs, not proof.",
    "level_note": "Disagreements between construction and luars are counted as inconclusive and listed in the evidence.",
}
