from props_common import COMMON_ASSUME

PROP = {
    "title": "Document notifications take effect in message order",
    "engine": "E2+E3",
    "needs_repo_bins": True,
    "level": "exploration",
    "technique": "runtime monitor over the real LSP dispatch (SimServer, virtual time, seeded schedule points): final analysed text / open state per document vs a reference model folded over the notification history; unique text per write; plus the shipped emmylua_ls binary over real stdio with document notifications sent while the workspace is being initialised (queued messages), documentSymbol as the protocol-boundary view",
    "design_ref": "§4 C27",
    "rule": "cases = generated scripts of 4-24 messages over 1-4 documents (on disk / not): didOpen/didChange/didClose/reopen respecting the protocol, interleaved with requests, pumps and virtual-time advances, a quarter of them without any pause; each script runs under 3 schedule seeds; "
            "at quiescence (120 virtual seconds without server output) every document is compared with the model (analysis text, open flag, documentSymbol view); distinct = hash of the recorded lock-event interleaving; non-trivial = >= 3 document notifications",
    "min_nontrivial": {"quick": 1500, "thorough": 50000},
    "max_secs": {"quick": 600, "thorough": 1500},
    "require_clauses": ["final-state-checked", "lock-events-observed", "stdio:final-state-checked", "stdio:document-views-checked"],
    "assumptions": COMMON_ASSUME + ["messages are delivered through on_notification_handler/on_request_handler exactly as ServerMessageProcessor::handle_message does; tasks run on a current-thread runtime, so the interleavings are those reachable by cooperative scheduling at await points (lock acquisitions yield a seeded number of times)"],
    "level_text": "Real dispatch + real handlers + real analysis; the only simulated parts are the transport and the clock. ~7k (quick) script executions, each checked against the reference model at quiescence.",
    "level_note": "True multi-threaded preemption between await points is not produced by the simulator (settled = 120 virtual seconds of silence); the stdio part (~50 quick / ~640 thorough server processes) runs the real multi-threaded runtime but only sees the documentSymbol view of open documents.",
}
