from props_common import COMMON_ASSUME

PROP = {
    "title": "After a reload, open files keep the editor's text",
    "engine": "E2",
    "level": "exploration",
    "technique": "runtime monitor over the real reload path (debounced .emmyrc.json reload, reindex on save, apply_workspace_reload / sync_reloaded_open_files) in the SimServer with seeded schedule points: final analysed text per URI vs a reference model of editor and disk state",
    "design_ref": "§4 C29",
    "rule": "cases = generated scripts of 8-36 messages over real files on disk: open/change/close/save, on-disk writes and deletions with their watched-file events, .emmyrc.json rewrites (2 s debounced workspace reload), didChangeConfiguration, requests, virtual-time advances; a reload trigger is always placed in the middle of the document traffic; 3 schedule seeds per script; "
            "at quiescence an open file must be analysed with its latest editor text, and a file closed before the last reload trigger must be analysed with its disk content (absent if not on disk); distinct = hash of the lock-event interleaving; non-trivial = >= 1 open file judged",
    "min_nontrivial": {"quick": 800, "thorough": 40000},
    "max_secs": {"quick": 600, "thorough": 1500},
    "require_clauses": ["post-reload-state-checked", "reload-triggers", "open-file-judged"],
    "assumptions": COMMON_ASSUME + ["a document closed AFTER the last reload is not judged against the disk (didClose alone does not reload the file; that is outside this property)"],
    "level_text": "Real reload machinery under interleavings produced by seeded yields at every lock request; ~4800 (quick) executions judged against the editor/disk model.",
    "level_note": "Cooperative scheduling only; settled = 120 virtual seconds of silence.",
}
