from props_common import COMMON_ASSUME

PROP = {
    "title": "Configuration controls which diagnostics are reported and how",
    "engine": "E1",
    "level": "exploration",
    "technique": "runtime monitor, metamorphic + invariants: workspace diagnosed under all-codes / default / generated diagnostics config; expected result derived from the two baselines",
    "design_ref": "§4 C20",
    "rule": "case = (workspace, config): workspace = main file + main file with ---@diagnostic enable + ---@meta file + file under a library root "
            "(disjoint or nested root), programs = 3-9 units of trigger snippets / generated statements / harvested test snippets; "
            "config = generated diagnostics.{disable,enables,severity,globals,globalsRegex,enable} parsed from JSON by serde into Emmyrc, applied "
            "before indexing or by update_config afterwards; 5 configs per workspace (quick: 16 x 1200 workspaces, thorough: 16 x 40000); baselines are taken three times and codes whose diagnostics differ between identical runs are left out for that workspace; a violation must repeat in three evaluations; distinct = FNV of config JSON + file texts; "
            "non-trivial = all-codes baseline has >= 8 diagnostics and the config has >= 2 entries",
    "min_nontrivial": {"quick": 25000, "thorough": 1000000},
    "max_secs": {"quick": 600, "thorough": 1500},
    "require_clauses": ["b:enables-anchor", "a:disable-of-firing-code", "a:file-enable-beats-disable", "b:enables-of-firing-code", "c:severity-of-firing-code",
                        "d:globals-hit", "d:globalsRegex-hit", "e:meta-file-silent", "e:library-file-silent", "f:enable-false",
                        "std-files-silent", "late-config-switch"],
    "assumptions": COMMON_ASSUME + [
        "default enabledness and default severity of a code are what the default / all-codes baselines of the same workspace show",
        "globalsRegex entries use regex *search* semantics (only patterns from a small subset evaluated by the harness are generated)",
        "a ---@meta file that itself carries ---@diagnostic enable is not judged (statement ambiguous) — counted inconclusive",
    ],
    "level_text": "Every (workspace, config) pair is run through the real EmmyLuaAnalysis::update_config / diagnose_file and compared with the expectation derived from the statement's precedence rules. Exploration over generated configs, not a proof.",
    "level_note": "Config spelling variants / merging are C31/C32; only the canonical nested JSON form is used here.",
}
