from props_common import COMMON_ASSUME

PROP = {
    "title": "Position-based requests handle any position without crashing",
    "engine": "E2",
    "level": "exploration",
    "technique": "runtime monitor: every position-taking request is sent through the real dispatch (SimServer) at token boundaries and out-of-range points; oracle = exactly one response, recording panic hook silent, no InternalError",
    "design_ref": "§4 C25",
    "rule": "cases = documents (corpus snippets, mutated corpus, soup, non-ASCII/CRLF) x 10 sampled token boundaries + 8 out-of-range / reversed positions (character = len+1, len+100, u32::MAX; line = count, count+1, u32::MAX) x 16 position-taking methods (hover, definition, implementation, references, prepareRename, rename, completion, signatureHelp, documentHighlight, selectionRange, inlineValue, prepareCallHierarchy, codeAction, rangeFormatting, onTypeFormatting, inlayHint); "
            "distinct = FNV of the document; non-trivial = >= 50 requests were answered for it",
    "min_nontrivial": {"quick": 2500, "thorough": 100000},
    "max_secs": {"quick": 600, "thorough": 1500},
    "require_clauses": ["requests-answered", "out-of-range-requests", "family:corpus", "family:corpus-mutant", "family:soup"],
    "assumptions": COMMON_ASSUME + ["a handler panic is observed through the process-wide panic hook (the server itself answers such a request with InternalError)"],
    "level_text": "Real handlers on real analysis state; ~180k (quick) requests, each must be answered and must not panic.",
    "level_note": "Positions are sampled, not exhaustive; documents <= 6 KB.",
}
