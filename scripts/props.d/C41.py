from props_common import COMMON_ASSUME

PROP = {
    "title": "Narrowing after loops accounts for what the loop body does",
    "engine": "E1",
    "level": "exploration",
    "technique": "runtime monitor with execution oracle: generated programs with bounded loops and probes after the loops run in the luars Lua 5.5 VM; infer_expr at post-loop probes must contain the runtime type; "
                 "need-check-nil / call-non-callable must not be reported where the loop's exit condition guarantees a value",
    "design_ref": "§4 C41",
    "rule": "case = G-loop program (16 x 2000 quick / 16 x 80000 thorough; G-flow statements without empty else blocks, under-initialised locals and condition aliases (C15 territory) plus while/repeat/numeric for/generic for, nested <= 2, bounded by counters or literal bounds: counter-bounded while with optional extra guard, "
            "`while true` with counter break, repeat-until counter [or guard], for with literal / reversed / zero-trip / local-variable bounds, ipairs/pairs over empty and non-empty table literals, "
            "conditional break, bodies assigning literals of various types; the four exit-guarantee templates `while not v`, `while v == nil`, `repeat..until v`, `repeat..until v ~= nil` followed by a use `v()`, `v + 1`, `v.f`, `v:upper()`); "
            "probes after every loop for every variable the body assigns or the condition mentions; "
            "distinct = FNV of the sorted (guard path @ preceding loop kinds) of reached probes; non-trivial = >= 2 post-loop probes reached",
    "min_nontrivial": {"quick": 5000, "thorough": 150000},
    "max_secs": {"quick": 600, "thorough": 1500},
    "require_clauses": ["post-loop-probe:reached", "post-loop-diag:guaranteed-uses", "loop-kind:while", "loop-kind:repeat", "loop-kind:numeric-for", "loop-kind:generic-for"],
    "assumptions": COMMON_ASSUME + [
        "same gamma and execution assumptions as C15",
        "only probes outside every loop and textually after a loop are judged (probes inside loop bodies are reported as reference counters)",
        "the diagnostic clause is judged only for the templates in which 'v is not nil and has the literal's type after the loop' follows statically from the exit condition "
        "(no break, v assigned only from literals of one truthy type, pre-loop value nil/absent/false/same type), and the execution confirms it",
        "a post-loop failure that persists after all loops are removed from the shrunk witness is C15 territory and is counted inconclusive here",
        "violating cases beyond 4 shrunk witnesses per pre-classification and shard (40 per shard overall) are not shrunk and are counted inconclusive (volume bound, never a verdict)",
        "need-check-nil is judged only when its range is exactly the variable token, call-non-callable only when it reports the type `never`",
    ],
    "level_text": "Each program is executed once (closed, deterministic, instruction-bounded) and analysed by the real pipeline with the std library loaded. Exploration over generated programs, not a proof.",
    "level_note": "Loops are bounded to <= 3 iterations; goto-based loops and coroutines are not generated.",
}
