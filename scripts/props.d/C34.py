from props_common import COMMON_ASSUME

PROP = {
    "title": "File paths and URIs convert back and forth without loss",
    "engine": "E1",
    "level": "exploration",
    "technique": "runtime monitor: path -> URI -> path round trip and alternative percent-encodings of the same URI through Vfs::file_id / get_file_id / get_uri",
    "design_ref": "§4 C34",
    "rule": "cases = normalised absolute paths of 1-5 components over ASCII letters, 29 reserved/special characters (space % # ? & + = ; @ $ ! ' ( ) [ ] { } ~ ^ , : * | \" < > ` \\), "
            "BMP / astral / combining Unicode, and tricky fragments (%20, %2F, %zz, '...', 'C:', control characters); per path the canonical URI plus up to 5 alternative "
            "encodings (hex lower / upper case, everything escaped, unreserved characters escaped at random, mixed-case hex); distinct = FNV of the path; "
            "non-trivial = the path contains a non-alphanumeric character and >= 3 alternative encodings were checked",
    "min_nontrivial": {"quick": 200000, "thorough": 5000000},
    "max_secs": {"quick": 600, "thorough": 1500},
    "require_clauses": ["a:roundtrip", "b:alternative-encodings-decode", "c:same-file-id"],
    "assumptions": COMMON_ASSUME + [
        "Linux path semantics only: the Windows branch of uri_to_file_path is cfg!(windows) and unreachable here",
        "paths are valid UTF-8 (the property quantifies over characters); non-UTF-8 paths are observed and counted, not judged",
        "a path segment made only of dots is never percent-encoded in an alternative (URL parsers read %2E%2E as '..')",
    ],
    "level_text": "Each generated path is converted to a URI and back, and up to five re-encodings of that URI must map to the same path and FileId. 16 x 40 000 paths (quick), 16 x 1 000 000 (thorough).",
    "level_note": "Host-bearing file URIs (file://localhost/...) and Windows drive letters are out of scope.",
}
