from props_common import COMMON_ASSUME

PROP = {
    "title": "The checker's exit status and reports match the diagnostics",
    "engine": "E3",
    "level": "exploration",
    "technique": "runtime monitor at the process boundary: the shipped emmylua_check is run on generated workspaces with every output format / "
                 "--severity / --warnings-as-errors / --output combination; exit status and fully parsed text, JSON and SARIF reports are compared "
                 "with an in-process analysis of the same directory and configuration",
    "design_ref": "§4 C36",
    "needs_repo_bins": True,
    "rule": "case = (generated workspace of 1-40 Lua files built from diagnostic-carrying snippets; workspace profile all / no default-error snippets / hints only / clean so that an expected exit 0 occurs: syntax errors mid-file and at EOF, undefined globals "
            "(also after non-ASCII text and tabs), unused locals, parameter/assignment type mismatches, multi-line ranges, deprecated, undefined field, "
            "redefined local; LF/CRLF; optional second root, optional library root outside or inside the main root with its own diagnostics, "
            "optional --config file outside the workspace, severity remaps / disabled codes in .emmyrc.json) x (format in text/json/json-file/sarif/"
            "sarif-file) x (--severity none/error/warn/info/hint) x (--warnings-as-errors on/off), each run repeated; distinct = FNV(workspace, flags); "
            "non-trivial = the reference has >= 2 diagnostics",
    "min_nontrivial": {"quick": 40, "thorough": 2000},
    "max_secs": {"quick": 600, "thorough": 1500},
    "require_clauses": ["exit-status", "severity-filter", "warnings-as-errors", "format:text", "format:json", "format:sarif", "format:json-file", "format:sarif-file"],
    "assumptions": COMMON_ASSUME + [
        "reference diagnostics = in-process EmmyLuaAnalysis over the generator's own file manifest with the same .emmyrc.json; computed twice with fresh "
        "hash seeds and required to agree, otherwise the workspace is inconclusive (seed dependence is C11's subject)",
        "diagnostics are compared by (file, range, code, severity); message text and the order of files in a report are not compared",
        "SARIF folds information and hint into level `note` (compared after the same folding); the text format prints only the start position",
    ],
    "level_text": "Every run of the real binary is parsed completely (JSON, SARIF, and the text report by its `--- file [counts]`, `level: message [code]`, "
                  "`--> file:line:col` and Summary lines) and compared as multisets with the reference; exit status is compared with the filtered reference.",
    "level_note": "Exploration over generated workspaces; the reference shares the analysis library with the binary, so only the CLI layer "
                  "(loading, filtering, counting, channel collection, writers, exit code) is judged.",
}
