from props_common import COMMON_ASSUME

PROP = {
    "title": "Generated documentation is complete and reproducible",
    "engine": "E3",
    "level": "exploration",
    "technique": "runtime monitor at the process boundary: the shipped emmylua_doc_cli exports generated workspaces to JSON in P fresh processes; "
                 "outputs are compared byte-for-byte and against the generator's manifest of declared items",
    "design_ref": "§4 C35",
    "needs_repo_bins": True,
    "rule": "case = generated workspace (2-7 files in nested dirs incl. init.lua; 4-14 classes (plain, doc-only, inheriting, generic, one split over two "
            "files with (partial)), enums, aliases, globals (number/string/table/function/typed/call result, sometimes one assigned in two files), "
            "modules returning a local table / table literal / function / number / nothing; optional library root outside or inside the main root "
            "declaring the same kinds) exported P=6 (quick) / 12 (thorough) times, to stdout and to a file; distinct = FNV(workspace); "
            "non-trivial = >= 3 non-module items and >= 2 modules with a return value in the main root",
    "min_nontrivial": {"quick": 10, "thorough": 200},
    "max_secs": {"quick": 600, "thorough": 1500},
    "require_clauses": ["a:byte-identity", "b:manifest-complete", "c:library-excluded", "c:std-excluded"],
    "assumptions": COMMON_ASSUME + [
        "a file without a `return` statement is not counted as a declared module (the exporter may list it or not)",
        "completeness is judged on (kind, name) only; member lists and rendered types are covered by the byte-identity clause alone",
    ],
    "level_text": "Each workspace is exported by the real binary in fresh processes; any byte difference is localised to its top-level section and "
                  "classified (list order / nested order / object key order / content); the exported classes, enums, aliases, globals and modules are "
                  "compared with the manifest as multisets.",
    "level_note": "Exploration over generated workspaces and P fresh processes per workspace; a hash-order dependence that needs more than P samples "
                  "to show can be missed.",
}
