from props_common import COMMON_ASSUME

PROP = {
    "title": "Type assignability obeys the basic laws of subtyping",
    "engine": "E1",
    "level": "exploration",
    "technique": "runtime monitor: algebraic-law oracle over generated annotation types (check_type_compact, TypeOps::union_all vs folded TypeOps::Union, assign-type-mismatch diagnostics) in the repository's VirtualWorkspace",
    "design_ref": "§4 C16",
    "rule": "one batch = one generated class hierarchy (chain of 4, diamond, random extra classes, generic classes Box<T>/Pair<K,V>, a generic chain H1<T>:H0<T>:Box<T> with plain subclasses, a class derived from string, plain aliases incl. a multi-line one, generic aliases M0<T>/R0<K,V>, 3 enums) + 40 generated annotation types (depth <= 4 quick, <= 6 for a quarter of the thorough batches) + 20 union batches of 1-5 types; "
            "one evaluation = (type or batch, law); distinct = FNV of (law, printed annotation(s)); non-trivial = the type AST has >= 3 nodes (ancestor law: distance >= 2 or a generic/primitive ancestor; union law: >= 2 elements)",
    "min_nontrivial": {"quick": 400000, "thorough": 2000000},
    "max_secs": {"quick": 600, "thorough": 1500},
    "require_clauses": ["law:reflexive-same", "law:reflexive-reparsed", "law:diag-reflexive", "law:member-own", "law:member-annotated", "law:ancestor", "law:ancestor:generic-descendant", "law:any", "law:unknown", "law:union-batch"],
    "assumptions": COMMON_ASSUME + [
        "types are obtained through `---@type <T>` annotations on locals (and a few literal expressions for the union law); a type the annotation pipeline collapses (e.g. `unknown[]` -> unknown) is tested as what it collapsed to",
        "union_all vs fold is compared on member *sets*; a difference only in duplicated members is counted as inconclusive (union-dup-members), not as a violation",
    ],
    "level_text": "Every generated type is turned into a real LuaType by the analyzer and each law is evaluated with the real check_type_compact / TypeOps / diagnostic code. Exploration over ~10^5 (quick) to ~10^6 (thorough) (type, law) pairs; it shows absence of law violations only on the types produced.",
    "level_note": "Trusts the harness's canonical-form comparison of LuaType values and VirtualWorkspace as a faithful front door; laws not in the statement (transitivity, covariance of containers) are not checked.",
}
