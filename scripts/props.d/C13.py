from props_common import COMMON_ASSUME

PROP = {
    "title": "Names resolve to the declaration Lua's scoping rules select",
    "engine": "E1",
    "level": "exploration",
    "technique": "runtime monitor with reference model: scoping oracle over the generator's own AST (validated per program against the luars Lua 5.5 VM) vs SemanticModel::find_decl on every name token",
    "design_ref": "§4 C13",
    "rule": "case = G-scope program (16 x 2500 quick / 16 x 100000 thorough; 12-45 statements over the names a,b,c,d: local lists with duplicates and <const>, multi-assignment, local function, "
            "function statements incl. a.b / a:m, closures with parameters, numeric and generic for, repeat-until, while, do, if/elseif/else, return, break); "
            "each program is first executed in luars in 'xcheck' form (declarations bound to distinct integers, uses recorded) and the oracle must agree with luars on every executed use; "
            "distinct = FNV of the sorted multiset of (use slot, kind of declaration it binds to); "
            "non-trivial = >= 10 name uses and >= 1 use that is shadowing-sensitive (another declaration of the same name is visible, or the use sits in a for header / "
            "generic-for explist / until condition / local right-hand side / the body of its own local function)",
    "min_nontrivial": {"quick": 3000, "thorough": 100000},
    "max_secs": {"quick": 600, "thorough": 1500},
    "require_clauses": ["xcheck:uses-confirmed-by-luars", "binding:uses-compared"],
    "assumptions": COMMON_ASSUME + [
        "luars 0.26.2 implements Lua 5.5 lexical scoping correctly (it is the second opinion for the oracle; a disagreement makes the case inconclusive)",
        "find_decl is queried with SemanticDeclLevel::NoTrace, i.e. the raw binding without following `local b = a` aliases of functions/tables (alias following is a feature, not scoping)",
        "a use that resolves to a global declaration or to nothing counts as 'global'",
    ],
    "level_text": "Every generated program is analysed by the real pipeline and find_decl is compared, for every name token, with the binding computed by an independent scope walk that luars confirmed by execution. Exploration over generated programs, not a proof.",
    "level_note": "Only the in-process query is observed (the LSP definition/hover/references handlers are covered by C14/C26 through the SimServer); goto/labels, `self`, varargs and `global` declarations (5.5) are not generated.",
}
