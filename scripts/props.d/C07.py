from props_common import COMMON_ASSUME

PROP = {
    "title": "Range formatting only rewrites code around the selection",
    "engine": "E1",
    "level": "exploration",
    "technique": "runtime monitor: reformat_range on generated / corpus documents x generated selections x configurations; "
                 "result spliced into the document and judged by the C05 token / statement / comment oracles",
    "design_ref": "§4 C07",
    "rule": "documents = C05 case stream (G-valid programs, corpus snippets, std files <= 30 kB, mutants, doc-heavy blocks, seeds) x up to 12 selections each "
            "(empty, inside one token / comment / long string, exactly one statement, a statement and a half, a syntax node or strictly inside it, whole file, "
            "reaching or lying beyond the end, whole lines, random byte pair; always on char boundaries) x LuaFormatConfig; "
            "distinct = FNV of (text, config, selection); non-trivial = a result was produced, spliced and >= 8 code tokens compared",
    "min_nontrivial": {"quick": 6000, "thorough": 150000},
    "max_secs": {"quick": 600, "thorough": 1500},
    "require_clauses": ["d:no-result-on-errors", "r:range-valid", "a:covers-selection", "b:splice-preserves", "changed-by-formatting",
                        "target:lines", "target:explicit:table", "target:explicit:call-args", "target:explicit:params",
                        "selection:empty", "selection:inside-token", "selection:one-statement", "selection:whole-file", "selection:beyond-eof", "selection:inside-long-string", "selection:inside-comment"],
    "assumptions": COMMON_ASSUME + [
        "selections are byte ranges on UTF-8 character boundaries with start <= end (what an LSP client can express)",
        "'selected code' = the code tokens (not comments, not whitespace) intersecting the selection; no result (None) is always admissible for a valid document",
        "the LSP handler textDocument/rangeFormatting is outside this check (emmylua_formatter API only)",
    ],
    "level_text": "Every generated (document, selection, configuration) goes through the real reformat_range; the reported replace range is validated, must cover the selected code, "
                  "and the spliced document must keep the code tokens, statement structure and comments of the original. Exploration, not proof.",
    "level_note": "Which internal path produced a result (explicit table / call-args / params target vs whole-line slice) is inferred from the reported range and counted per path.",
}
