from props_common import COMMON_ASSUME

PROP = {
    "title": "Parsing never crashes or hangs on any input",
    "engine": "E1",
    "level": "exploration",
    "technique": "runtime monitor, abort-aware: nesting ladders and hostile inputs parsed on a 2 MiB-stack thread in worker processes; panic hook, process-death attribution, CPU-time scaling exponents",
    "design_ref": "§4 C02",
    "rule": "cases = 34 nesting families x depth ladder (64..10000 quick, ..100000 thorough; 2 MiB and, thorough, 8 MiB stacks) + 18 width families measured at n,2n,4n,8n (CPU-time exponent) + soup / corpus mutants / lossy bytes / nested mixes; "
            "distinct = FNV of the input (or family:depth); non-trivial = nesting depth >= 64, a measured scaling family, or a text whose tree has >= 8 tokens",
    "min_nontrivial": {"quick": 80000, "thorough": 1500000},
    "max_secs": {"quick": 600, "thorough": 1500},
    "abort_is_violation": True,
    "require_clauses": ["a:no-panic", "b:nesting-rung", "c:scaling-measured", "d:cost-within-bound", "e:lossless", "family:soup", "family:corpus-mutant"],
    "assumptions": COMMON_ASSUME + [
        "stack verdicts hold for the release profile on x86-64 with a 2 MiB thread stack (tokio worker default); thorough adds 8 MiB",
        "time verdicts use thread CPU time: scaling exponent <= 1.35 held, 1.35-1.6 inconclusive, > 1.6 twice = violation; single inputs are bounded by 500x the per-byte baseline measured in the same process",
    ],
    "level_text": "Real parser on a 2 MiB stack in sacrificial worker processes: panics are caught and attributed, aborts are attributed through a pre-announce log and confirmed by an isolated re-run, CPU-time scaling is measured per input family. Exploration over families, depths and ~200k (quick) hostile inputs.",
    "level_note": "A crash on an input shape no family or soup case reaches is invisible; timing clauses are relative to a baseline measured under the same load.",
}
