from props_common import COMMON_ASSUME

PROP = {
    "title": "Every client request gets exactly one response",
    "engine": "E2",
    "level": "exploration",
    "technique": "runtime monitor: exactly-once history checker over the recorded JSON-RPC message log of the real dispatch layer (SimServer, virtual time, seeded schedule points)",
    "design_ref": "§4 C24",
    "rule": "cases = generated scripts of 8-40 messages mixing 26 request methods with valid / wrong-typed / null / missing-field params, unknown methods, $/cancelRequest (for sent, finished and never-used ids), document notifications, watched-file events, config reloads, saves; every (method, params shape) pair is inserted systematically; "
            "at quiescence every sent request id must have exactly one response; distinct = hash of (lock interleaving, request kinds); non-trivial = >= 2 requests",
    "min_nontrivial": {"quick": 1200, "thorough": 60000},
    "max_secs": {"quick": 600, "thorough": 1500},
    "require_clauses": ["history-checked", "requests-sent", "error-responses", "cancels-sent"],
    "assumptions": COMMON_ASSUME + ["the `initialize` handshake and the stdio framing of run_ls are outside the simulator (the dispatch functions are driven directly)", "settled = 120 virtual seconds without server output"],
    "level_text": "Real on_request_handler / ServerContext::task / cancellation map; ~2400 (quick) scripts with ~20k requests, each request id checked for exactly one response at quiescence.",
    "level_note": "run_ls's own initialize handling (unwrap on undeserialisable params) is not driven by this check.",
}
