from props_common import COMMON_ASSUME

PROP = {
    "title": "Every client request gets exactly one response",
    "engine": "E2+E3",
    "needs_repo_bins": True,
    "level": "exploration",
    "technique": "runtime monitor: exactly-once history checker over the recorded JSON-RPC message log of the real dispatch layer (SimServer, virtual time, seeded schedule points) and over the framed stdio traffic of the shipped emmylua_ls binary (initialize handshake, requests queued during workspace initialisation, shutdown / exit, process death)",
    "design_ref": "§4 C24",
    "rule": "cases = generated scripts of 8-40 messages mixing 26 request methods with valid / wrong-typed / null / missing-field params, unknown methods, $/cancelRequest (for sent, finished and never-used ids), document notifications, watched-file events, config reloads, saves; every (method, params shape) pair is inserted systematically; "
            "at quiescence every sent request id must have exactly one response; distinct = hash of (lock interleaving, request kinds); non-trivial = >= 2 requests",
    "min_nontrivial": {"quick": 1200, "thorough": 60000},
    "max_secs": {"quick": 600, "thorough": 1500},
    "require_clauses": ["history-checked", "requests-sent", "error-responses", "cancels-sent", "stdio:history-checked", "stdio:requests-sent", "stdio:exit-observed"],
    "assumptions": COMMON_ASSUME + ["SimServer part: settled = 120 virtual seconds without server output",
                                      "stdio part: real time; 'never answered' is restated as bounded progress (unanswered 60 s after the burst, then a sentinel request answered, then still unanswered 20 s later => violation; sentinel unanswered => inconclusive); only request kinds that are cheap on a 1-5 file workspace are sent",
                                      "the stdio client answers every server->client request with null (workspace/configuration with an array of nulls)"],
    "level_text": "Real on_request_handler / ServerContext::task / cancellation map; ~2400 (quick) scripts with ~20k requests, each request id checked for exactly one response at quiescence.",
    "level_note": "The stdio part is ~50 (quick) / ~640 (thorough) server processes with 5-25 requests each; duplicates and process death with unanswered requests are definitive, a missing response needs the bounded-progress rule.",
}
