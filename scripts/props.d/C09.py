from props_common import COMMON_ASSUME

PROP = {
    "title": "Reindexing equals analysing the current files from scratch",
    "engine": "E1",
    "level": "exploration",
    "technique": "runtime monitor: observable dump and index census of the reindexed analysis vs. a fresh reference analysis of the surviving files (same config, same id order)",
    "design_ref": "§4 C09",
    "rule": "case = generated workspace + any start (batch | one-by-one | +reindex) + history of update / re-submit / edit-restore / remove (both APIs) / re-add / "
            "reindex / bare update_config / config-reload (update_config + batch re-submission of all files; 6 Emmyrc variants) steps, then reindex(); reference = new analysis, final config, same roots, surviving files registered in the "
            "order of the reindexed analysis' file ids and analysed in id order; distinct = hash of (texts, config, setup, steps); "
            "non-trivial = >= 2 surviving files and >= 1 state-changing step applied",
    "min_nontrivial": {"quick": 300, "thorough": 8000},
    "max_secs": {"quick": 600, "thorough": 1500},
    "require_clauses": ["a:reindexed-equals-fresh", "b:census-not-larger-than-fresh", "step:update", "step:remove", "step:re-add", "step:config", "step:config-reload", "step:reindex"],
    "assumptions": COMMON_ASSUME + [
        "the observable dump of src/observe.rs is taken as 'the observable results'",
        "no std library loaded; reference analyses that are not reproducible (C11) make the case inconclusive",
    ],
    "level_text": "Every generated history is executed against the real EmmyLuaAnalysis, followed by reindex(); the result is compared with an independent fresh analysis. Exploration over generated histories, not a proof.",
    "level_note": "Remote (non-file) documents are not part of the workload; a census surplus of the reindexed analysis over the fresh one is a violation (clause b), a deficit is not.",
}
