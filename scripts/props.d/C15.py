from props_common import COMMON_ASSUME

PROP = {
    "title": "Flow-narrowed types always contain the runtime value's type",
    "engine": "E1",
    "level": "exploration",
    "technique": "runtime monitor with execution oracle: generated loop-free programs with probes run in the luars Lua 5.5 VM; SemanticModel::infer_expr at each reached probe must contain the runtime type under a conservative concretisation",
    "design_ref": "§4 C15",
    "rule": "case = G-flow program (16 x 3000 quick / 16 x 120000 thorough; 4 locals initialised with literals of every basic type, 6-16 further statements: reassignment from a literal or another local, swap, shadowing re-declaration, "
            "immutable condition alias `local c = <guard>`, do-blocks, if/elseif/else nested <= 3 over guards built from type(x)==/~=\"T\" (both operand orders, incl. names type() never returns), "
            "x==nil, x~=nil, truthiness, not, and, or), `__probe(k, x)` at branch entries, after assignments and at merge points; "
            "distinct = FNV of the sorted guard-shape paths of the reached probes; non-trivial = >= 6 reached probes judged and >= 1 of them inside a guarded branch",
    "min_nontrivial": {"quick": 12000, "thorough": 400000},
    "max_secs": {"quick": 600, "thorough": 1500},
    "require_clauses": ["probe:reached-and-judged"],
    "assumptions": COMMON_ASSUME + [
        "luars 0.26.2 executes this fragment like Lua 5.5 (type(), ==, and/or/not on literals and locals)",
        "gamma: nil->{nil}; boolean(+consts)->{boolean}; integer/number(+consts)->{number}; string(+consts)->{string}; table/tableconst/array/tuple/object/table<>->{table}; "
        "function/fun()/signature->{function}; union->union of members; never->{}; every other LuaType (any, unknown, refs, generics, ...)->all types, so it can never alarm",
        "a probe whose infer_expr returns an error is not judged (counted); a probe that the execution never reaches is not judged",
    ],
    "level_text": "Each program is executed once (it is closed and deterministic) and analysed by the real pipeline with the std library loaded; every reached probe is compared. Exploration over generated programs, not a proof; narrowing that is too wide is not a violation.",
    "level_note": "One analysis instance is reused per worker (the case file is replaced); every violation is re-confirmed in a fresh instance before it is reported and again by the driver's isolated replay.",
}
