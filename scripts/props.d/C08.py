from props_common import COMMON_ASSUME

PROP = {
    "title": "Re-submitting or undoing an edit leaves analysis state unchanged",
    "engine": "E1",
    "level": "exploration",
    "technique": "runtime monitor: path-keyed observable dump + index census (hook H1) compared before/after generated state-preserving histories",
    "design_ref": "§4 C08",
    "rule": "case = generated workspace (2-8 files: split classes with docs, conflicting globals, requires incl. cycles, aliases, enums, operators, "
            "---@diagnostic comments, meta files, optional library root) + consistent start (batch analysis in id order | one-by-one+reindex | production batch+reindex) "
            "+ history of re-submit-unchanged / batch re-submit-unchanged / edit-then-restore steps; the dump is compared after every step, the census after the history; "
            "every case yields two evaluations (clause a: dump equality after every step; clause b: census not grown) so that a census leak does not hide the dump clause; "
            "distinct = hash of (file texts, config, setup, steps, clause); non-trivial = >= 2 files, >= 4 chunks and >= 1 step applied",
    "min_nontrivial": {"quick": 150, "thorough": 3000},
    "max_secs": {"quick": 600, "thorough": 1500},
    "require_clauses": ["a:dump-equal-after-step", "b:census-not-grown", "step:resubmit", "step:batch-resubmit", "step:edit-restore"],
    "assumptions": COMMON_ASSUME + [
        "the observable dump (src/observe.rs: diagnostics with all codes enabled, semantic info of every name/string token, declarations with references and docs, "
        "globals, types with members/supers/docs, module table and find_module) is taken as 'every observable result'",
        "no std library loaded; cases whose fresh analysis is not reproducible (C11) are excluded and counted as inconclusive",
    ],
    "level_text": "Every generated history is executed against the real EmmyLuaAnalysis; the dump after each step must equal the dump of the consistent start and no index census component may grow. Exploration over generated workspaces/histories, not a proof.",
    "level_note": "Census = line count of the pretty Debug rendering per index (hook H1), so growth inside one collapsed line is invisible; hover documentation is read from the property index, not through the LSP hover handler.",
}
