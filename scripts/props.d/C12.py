from props_common import COMMON_ASSUME

PROP = {
    "title": "Indexing and semantic queries never crash on any program",
    "engine": "E1",
    "level": "exploration",
    "technique": "runtime monitor, abort-aware: index + diagnose (all codes) + per-token semantic queries on hostile programs under catch_unwind on a 2 MiB stack, panic hook with in-repo frames, CPU budget",
    "design_ref": "§4 C12",
    "rule": "cases = 1-3 files: mutated corpus snippets, verbatim corpus, 37 adversarial annotation shapes (recursive/mutual aliases, cyclic and self inheritance, self-referential generics, unknown supers, operators, overloads, variadics, casts …) optionally mutated, annotation soup, spliced files; x 6 language levels x 32 strictness configs, all diagnostic codes enabled; "
            "distinct = hash of (file names, texts, config); non-trivial = >= 12 tokens and >= 1 expression were queried",
    "min_nontrivial": {"quick": 12000, "thorough": 400000},
    "max_secs": {"quick": 600, "thorough": 1500},
    "abort_is_violation": True,
    "require_clauses": ["no-panic:index+diagnose+queries", "queries:semantic-info", "queries:find-decl", "queries:infer-expr", "queries:humanize", "diagnostics-produced", "family:adversarial", "family:corpus-mutant", "family:annot-soup"],
    "assumptions": COMMON_ASSUME + ["nesting depth of generated programs stays below the parser's nesting limit (deep nesting is C02's subject)", "CPU budget 30 s per case, confirmed by repetition"],
    "level_text": "Real update_files_by_uri + diagnose_file + get_semantic_info / find_decl / infer_expr / humanize_type on every token and expression of ~24k (quick) hostile file sets; every panic is caught, attributed (location + in-repo frames), shrunk and replayed in isolation.",
    "level_note": "A crash that needs a program shape none of the generators produce is invisible; LSP handler code on top of these queries is covered by C25.",
}
