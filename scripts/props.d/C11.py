from props_common import COMMON_ASSUME

PROP = {
    "title": "Analysis results do not depend on file order or hash seeds",
    "engine": "E1",
    "level": "exploration",
    "technique": "runtime monitor: hash-seed resampling — the same workspace analysed in fresh analyses and fresh child processes, observable dumps must coincide",
    "design_ref": "§4 C11",
    "rule": "case = generated order-sensitive workspace (3-8 files: conflicting global assignments and reads, partial classes with conflicting fields, duplicate aliases, "
            "requires incl. cycles, enums/aliases used before their defining file) analysed (P+1)*K times per entry point (production update_files_by_uri; sorted id-order batch) "
            "with the same registration order: K in the worker + K in each of P fresh child processes (quick P=4,K=4; thorough P=8,K=6); "
            "distinct = hash of (texts, config); non-trivial = >= 3 files, >= 6 chunks, samples from >= 1 child process",
    "min_nontrivial": {"quick": 15, "thorough": 200},
    "max_secs": {"quick": 600, "thorough": 1500},
    "require_clauses": ["entry:production", "entry:sorted", "child-processes", "analyses"],
    "assumptions": COMMON_ASSUME + [
        "hash seeds (std RandomState, foldhash) cannot be set, only resampled by creating new analyses and new processes",
        "dumps are compared modulo the listing order of members inside rendered types (observe::canon_type)",
    ],
    "level_text": "Each workspace is analysed 20 (quick) to 54 (thorough) times per entry point across 5-9 processes; one differing dump is a violation. Exploration by resampling: a rare iteration order can be missed.",
    "level_note": "Miss probability for a fair two-outcome coin is 2^-19 (quick) per workspace, much worse for rare orders; thread timing plays no role because the analysis is single-threaded.",
}
