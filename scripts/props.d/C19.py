from props_common import COMMON_ASSUME

PROP = {
    "title": "Diagnostic suppression comments affect exactly their scope",
    "engine": "E1",
    "level": "exploration",
    "technique": "runtime monitor, metamorphic: diagnose_file on P and on P + one ---@diagnostic comment; expected set by line arithmetic on D(P)",
    "design_ref": "§4 C19",
    "rule": "case = generated block-structured program (do/if/elseif/else/while/for/repeat/function/table constructor, <= ~40 lines, "
            "0/2/4-space or tab indentation, LF or CRLF) + one suppression comment (disable-next-line / disable-line own-line or trailing / "
            "disable in a nested block / disable at top level; with 1-3 codes or without a list); every code enabled; "
            "distinct = FNV of the program text with the comment; non-trivial = D(P) has >= 3 diagnostics and the comment had something to act on "
            "(>= 1 diagnostic hidden in scope, or >= 1 diagnostic with a listed code kept outside the scope)",
    "min_nontrivial": {"quick": 25000, "thorough": 800000},
    "max_secs": {"quick": 600, "thorough": 1500},
    "require_clauses": ["hide:disable-next-line", "hide:disable-line", "hide:disable", "keep-outside:disable-next-line",
                        "keep-outside:disable-line", "keep-outside:disable", "other-codes-kept"],
    "assumptions": COMMON_ASSUME + [
        "inserting a comment line is semantically neutral for the generated programs; codes whose checker reads the attached doc comment "
        "(incomplete-signature-doc, missing-global-doc, undefined-doc-param) are left out of the comparison; a case in which D(P') contains a "
        "diagnostic that is not derivable from D(P) is inconclusive",
        "a diagnostic whose range starts before the scope and reaches into it may or may not be hidden (both accepted)",
    ],
    "level_text": "Each case runs the real analysis twice (with / without the comment) and compares D(P') with the set derived from D(P) by the scoping rules of the statement. Exploration over generated programs and comment placements, not a proof.",
    "level_note": "The generator never puts the comment next to another comment line (merged comments make 'the comment line' ambiguous); `---@diagnostic enable` is covered by C20.",
}
