from props_common import COMMON_ASSUME

PROP = {
    "title": "Rename and references agree with name resolution",
    "engine": "E2",
    "level": "exploration",
    "technique": "runtime monitor: rename / references results of the real handlers (SimServer) compared with the set of name tokens that the implementation's own find_decl resolves to the same declaration; edits applied and the resolution graph re-computed",
    "design_ref": "§4 C14",
    "rule": "cases = G-scope programs (locals, multi-assignment, local functions, closures with parameters, numeric/generic for, repeat-until, while, do, if, shadowing over a 4-letter alphabet); for 14 sampled name tokens per program that resolve to a local: references(includeDeclaration) and rename(fresh name) are requested; "
            "clauses: references == R(p), rename edits == R(p), pairwise disjoint and in-document, and after applying the edits every name token resolves to the same declaration as before; distinct = FNV of the program; non-trivial = >= 6 positions judged",
    "min_nontrivial": {"quick": 900, "thorough": 40000},
    "max_secs": {"quick": 600, "thorough": 1500},
    "require_clauses": ["rename+references-judged", "renames-applied-and-reanalysed"],
    "assumptions": COMMON_ASSUME + ["generated programs are ASCII with \\n line ends, so LSP positions convert to byte offsets trivially", "R(p) uses the implementation's own resolution (NoTrace find_decl): agreement, not correctness, is judged"],
    "level_text": "Real rename and references handlers on ~1900 (quick) generated programs x 14 positions; every answer is compared with the implementation's own resolution and every rename is applied and re-analysed.",
    "level_note": "Only locals and parameters (the property's scope); a null rename answer is counted, not judged.",
}
