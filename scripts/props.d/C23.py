from props_common import COMMON_ASSUME

PROP = {
    "title": "Positions follow the LSP encoding and line-ending rules",
    "engine": "E1",
    "level": "exploration",
    "technique": "runtime monitor: LSP ranges produced for known tokens / diagnostics are read back with an independent UTF-16 + LF/CRLF/CR position model",
    "design_ref": "§4 C23 (in-process part; the LSP-handler observations of §4 C23 belong to the SimServer family)",
    "rule": "cases = generated Lua documents of 1-10 lines with known undefined globals placed after emoji / BMP non-ASCII text inside strings, comments and long "
            "strings, in LF / CRLF / lone-CR / mixed terminator styles; observed = LuaDocument::to_lsp_range of every non-trivia token and the ranges of "
            "undefined-global diagnostics from EmmyLuaAnalysis::diagnose_file; distinct = FNV of the document (held or refuted); "
            "non-trivial = >= 8 token ranges and >= 1 diagnostic range checked",
    "min_nontrivial": {"quick": 4000, "thorough": 150000},
    "max_secs": {"quick": 600, "thorough": 1500},
    "require_clauses": ["token-ranges", "diagnostic-ranges"],
    "assumptions": COMMON_ASSUME + [
        "no position encoding is negotiated in-process, so the protocol default applies: UTF-16 code units, lines end at LF, CRLF or CR",
        "whitespace / end-of-line tokens are not judged (a range ending between CR and LF has no LSP reading)",
        "completeness of undefined-global reporting is not judged, only where a reported range lands",
    ],
    "level_text": "Each generated document is analysed by the real analysis; every token range and every undefined-global diagnostic range must select its own "
                  "text when read the way an LSP client reads it. Exploration over ~8k (quick) documents.",
    "level_note": "In-process observations only; documentSymbol / definition / hover / semantic-token responses of the server are not exercised here.",
}
