from props_common import COMMON_ASSUME

PROP = {
    "title": "Published diagnostics converge to the current content",
    "engine": "E2",
    "level": "exploration",
    "technique": "runtime monitor: offline checker over the recorded publishDiagnostics notifications of the real server (SimServer, virtual time so all debounce timers elapse, seeded schedule points) vs a diagnosis of the current content at quiescence",
    "design_ref": "§4 C30",
    "rule": "cases = generated scripts of 6-36 messages for a push-diagnostics client: open/change bursts shorter than the 500 ms debounce, closes, watched-file create/change/delete events, requests, pumps and virtual-time advances, each under 3 schedule seeds; self-contained files (diagnostics depend on the file's own text only, unique per version); "
            "at quiescence the last publication of every open file must equal diagnose_file on its current content, and a file no longer in the analysis must end with an empty publication; distinct = hash of (interleaving, publication count); non-trivial = >= 2 publications and >= 1 open file judged",
    "min_nontrivial": {"quick": 800, "thorough": 40000},
    "max_secs": {"quick": 600, "thorough": 1500},
    "require_clauses": ["converged-state-checked", "publications-observed", "removed-file-observed"],
    "assumptions": COMMON_ASSUME + ["expected diagnostics are computed by diagnose_file on the server's own analysis at quiescence (index drift is C08's subject)", "files whose analysed text is not the last notified text are left to C27/C29"],
    "level_text": "Real debounced diagnostic tasks, cancellation tokens and publication path; ~4800 (quick) script executions with every debounce interval elapsed in virtual time before judging.",
    "level_note": "Cross-file staleness is out of scope (self-contained files); settled = 120 virtual seconds of silence.",
}
