from props_common import COMMON_ASSUME

PROP = {
    "title": "Parse results do not depend on earlier parses",
    "engine": "E1",
    "level": "exploration",
    "technique": "runtime monitor: differential oracle — every tree stored by the real Vfs (shared NodeCache) after a history of near-duplicate texts vs a fresh standalone parse with the same configuration; thorough adds Miri shards (parses through one shared rowan NodeCache interpreted for undefined behaviour, cached vs fresh trees compared)",
    "design_ref": "§4 C04",
    "rule": "cases = histories of 30 (quick) / 60 (thorough) set_file_content steps over 4 file slots built from near-duplicates of 1-3 corpus files (same text, token edits, moved lines, wrapped in do/function, appended statements), half of them with mid-history config switches (language level, require-like functions); "
            "after every step the stored tree's full debug rendering + error list is compared with a fresh parse; distinct = hash of the step texts; non-trivial = >= 4 steps",
    "min_nontrivial": {"quick": 8000, "thorough": 200000},
    "max_secs": {"quick": 600, "thorough": 1500},
    "require_clauses": ["steps-compared", "history:with-config-switches", "history:same-config"],
    "assumptions": COMMON_ASSUME + ["cache hits are not observable from outside: sharing is made certain by construction of near-duplicate histories"],
    "level_text": "Real Vfs::set_file_content path (real Emmyrc::get_parse_config with the Vfs's NodeCache); ~100k (quick) step comparisons against fresh parses, including config switches mid-history.",
    "level_note": "Only the file set in each step is compared (trees of earlier files are immutable green trees).",
}

from miri_shard import custom_for  # noqa: E402

custom = custom_for("C04")
