from props_common import COMMON_ASSUME

PROP = {
    "title": "Rendered types read back as the same type",
    "engine": "E1",
    "level": "exploration",
    "technique": "runtime monitor: render (humanize_type, RenderLevel::Documentation) -> re-annotate -> structural comparison of the two real LuaTypes (unions as sets), over generated types of the display=annotation sub-grammar",
    "design_ref": "§4 C17",
    "rule": "one batch = one generated hierarchy + 80 generated types of the C17 sub-grammar (primitives, string/int/bool literals incl. quotes and escapes, unions, optionals, arrays, table<K,V>, records with optional / integer / quoted / index-signature fields, class / alias / enum references), depth <= 4 (5 for a third of thorough batches); "
            "one evaluation = one type whose rendering is not truncated; distinct = FNV of the printed annotation; non-trivial = type AST has >= 3 nodes; "
            "renderings containing the truncation marker `...` outside string literals and the multi-line expanded member view of a top-level class/enum are skipped and counted (skipped:*)",
    "min_nontrivial": {"quick": 30000, "thorough": 500000},
    "max_secs": {"quick": 600, "thorough": 1500},
    # 17 per 10k renderings are truncated on the pinned tree (measured); renderings that are truncated
    # are outside the property ("within the renderer's size limits") and skipped, so a regression
    # that truncates more must not hide behind the skip
    "max_clause_per_10k": {"skipped:truncated": ("rendered", 25, "C17:truncated-share-exceeds-calibrated-bound", 120)},  # quick bound 25 as calibrated on the pinned tree over seeds 1-5; the thorough tier generates deeper types (50 per 10k on the pinned tree), its bound is 120
    "require_clauses": ["a:structural-roundtrip", "b:rerender-equal", "rendered", "skipped:truncated", "family:string-literal", "family:array-of-union", "family:record"],
    "assumptions": COMMON_ASSUME + [
        "'same type' = equal canonical forms of the two LuaType values (union members as a set, record fields by key, annotation literals and inferred literals identified)",
        "the Documentation-level expanded member view (`Name {` newline fields `}`) of a top-level class/enum reference is treated as display-only syntax, like function and tuple types",
    ],
    "level_text": "Each generated type is annotated, rendered by the real renderer at full detail, annotated again from the rendered text, and the two real types are compared. Exploration over ~5*10^4 (quick) to ~10^6 (thorough) types.",
    "level_note": "Only RenderLevel::Documentation at the top (nested levels are whatever the renderer chooses); truncated renderings are out of scope by the statement.",
}
