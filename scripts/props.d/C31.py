from props_common import COMMON_ASSUME

PROP = {
    "title": "Loading any configuration never crashes",
    "engine": "E1",
    "level": "exploration",
    "technique": "runtime monitor: load_configs + Emmyrc::pre_process_emmyrc under catch_unwind on generated configuration file sets; Lua configs announced for abort attribution; hang probes in a child process under a CPU budget",
    "design_ref": "§4 C31",
    "rule": "cases = 1-3 configuration files over the key space harvested from resources/schema.json (flat / nested / mixed spellings, keys that are both a value "
            "and a prefix in both orders and depths, wrong value types, hostile path strings for every path-typed setting: ~ ~x ~é ~/ ./ $ ${workspaceFolder} "
            "$VAR {env:..} NUL ...), odd JSON roots, malformed bytes (truncated, BOM, comments, invalid UTF-8, deep nesting), .emmyrc.lua sources (rendered "
            "tables, syntax errors, runtime errors, non-table results, cyclic tables), missing files and directories, optional client partial configs, "
            "7 kinds of workspace root; distinct = FNV of the case (held or refuted); non-trivial = >= 3 settings, or a collision, a path string, an invalid "
            "file or a Lua file",
    "min_nontrivial": {"quick": 3000, "thorough": 100000},
    "max_secs": {"quick": 600, "thorough": 1500},
    "require_clauses": ["a:no-crash", "b:invalid-file-skipped", "family:json", "family:malformed", "family:lua", "family:odd-lua", "family:missing", "family:lua-hang-probe"],
    "assumptions": COMMON_ASSUME + [
        "environment of the expansion: HOME is a private directory, VERIF_TILDE='~', VERIF_EMPTY='', VERIF_UNSET_VARIABLE unset; no luarocks binary",
        "clause b (skip or defaults) is only applied to files that are certainly not JSON / unreadable, and only when the other files contain no colliding keys",
        "hang probes (shard 0: quick 1, thorough 4 Lua sources that do not terminate unless the sandbox limits work) run in a child: > 3 s CPU, then > 12 s CPU in a second child = hang (a normal Lua config costs ~1 ms CPU; the loader asks for a 1 s timeout)",
        "pre_process_emmyrc is skipped when all five path lists of the loaded configuration are empty (nothing input-dependent left to observe)",
    ],
    "level_text": "Generated hostile configuration sets are loaded by the real loader and path expander; a panic, abort or confirmed hang is a violation. "
                  "16 x 800 (quick) / 16 x 25 000 (thorough) cases. Exploration, not proof.",
    "abort_is_violation": True,
    "level_note": "Only load_configs + pre_process_emmyrc are driven (what emmylua_ls / emmylua_check / emmylua_doc_cli call); the server's own file discovery "
                  "(load_emmy_config) is not.",
}
