from props_common import COMMON_ASSUME

PROP = {
    "title": "Loading any configuration never crashes",
    "engine": "E1",
    "level": "exploration",
    "technique": "runtime monitor: load_configs + Emmyrc::pre_process_emmyrc under catch_unwind on generated configuration file sets; Lua configs in a child process",
    "design_ref": "§4 C31",
    "rule": "cases = 1-3 configuration files over the key space harvested from resources/schema.json (flat / nested / mixed spellings, keys that are both a value "
            "and a prefix in both orders and depths, wrong value types, hostile path strings for every path-typed setting: ~ ~x ~é ~/ ./ $ ${workspaceFolder} "
            "$VAR {env:..} NUL ...), odd JSON roots, malformed bytes (truncated, BOM, comments, invalid UTF-8, deep nesting), .emmyrc.lua sources (rendered "
            "tables, syntax errors, runtime errors, non-table results, cyclic tables), missing files and directories, optional client partial configs, "
            "7 kinds of workspace root; distinct = FNV of the case (held or refuted); non-trivial = >= 3 settings, or a collision, a path string, an invalid "
            "file or a Lua file",
    "min_nontrivial": {"quick": 30000, "thorough": 1000000},
    "max_secs": {"quick": 75, "thorough": 1000},
    "require_clauses": ["a:no-crash", "a:lua-config", "b:invalid-file-skipped", "family:json", "family:malformed", "family:lua", "family:odd-lua", "family:missing"],
    "assumptions": COMMON_ASSUME + [
        "environment of the expansion: HOME is a private directory, VERIF_TILDE='~', VERIF_EMPTY='', VERIF_UNSET_VARIABLE unset; no luarocks binary",
        "clause b (skip or defaults) is only applied to files that are certainly not JSON / unreadable, and only when the other files contain no colliding keys",
        "a child that burns > 20 s CPU (then > 80 s on a second run) counts as a hang; the Lua sandbox's own 1 s timeout is wall clock and not judged",
    ],
    "level_text": "Generated hostile configuration sets are loaded by the real loader and path expander; a panic, abort or confirmed hang is a violation. "
                  "~64k (quick) cases. Exploration, not proof.",
    "abort_is_violation": True,
    "level_note": "Only load_configs + pre_process_emmyrc are driven (what emmylua_ls / emmylua_check / emmylua_doc_cli call); the server's own file discovery "
                  "(load_emmy_config) is not.",
}
