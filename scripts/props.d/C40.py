from props_common import COMMON_ASSUME

PROP = {
    "title": "JSON-schema conversion emits valid annotations",
    "engine": "E1",
    "level": "exploration",
    "technique": "runtime monitor: SchemaConverter::convert on generated schemas; emitted text parsed by the real Lua parser; root declaration looked up in the doc tree",
    "design_ref": "§4 C40",
    "rule": "cases = generated root schemas: objects with 0-4 properties (plain, keyword, spaced, dotted, quoted, multi-line, non-ASCII, empty names), arrays, enums and consts "
            "(strings with quotes, backslashes, newlines, comment markers; non-strings), oneOf / anyOf / allOf, $ref (resolvable, dangling, malformed), $defs / definitions "
            "with 0-4 entries, descriptions (single / multi-line / non-string), wrong-typed keywords, titles (plain, odd, non-string, absent), private flag; plus the "
            "repository's own resources/schema.json; distinct = FNV of the schema; non-trivial = the emitted text declares >= 2 types or has >= 9 lines",
    "min_nontrivial": {"quick": 20000, "thorough": 1000000},
    "max_secs": {"quick": 600, "thorough": 1500},
    "require_clauses": ["a:no-panic", "b:parses", "c:root-declared", "repo-schema"],
    "assumptions": COMMON_ASSUME + [
        "'syntax errors' = any error (SyntaxError or DocError) reported by LuaParser::parse with the default ParserConfig on the emitted text",
        "'declares the root type' = a ---@class / ---@alias / ---@enum tag whose name token equals ConvertResult.root_type_name",
    ],
    "level_text": "Generated schemas are converted by the real converter and the emitted annotations are parsed by the real parser. 16 x 4 000 schemas (quick), 16 x 200 000 (thorough).",
    "level_note": "Semantic correctness of the emitted types (right type for the right field) is not judged.",
}
