from props_common import COMMON_ASSUME

PROP = {
    "title": "Generic functions return their instantiated argument types",
    "engine": "E1",
    "level": "exploration",
    "technique": "runtime monitor: substitution oracle — a template family of ---@generic functions called with typed locals; the inferred type of `local r = f(a)` is compared with the harness's own substitution of the real argument types",
    "design_ref": "§4 C18",
    "rule": "one batch = one generated hierarchy + 40 cases in one analysed file (template in {id, array-of, elem, elem2, mk-table, value-of, key-of, optional, pair, dup, call, ret-fun, param-fun, elem-of-tuple}, 1-2 generated argument types of depth <= 3 (4 for a third of thorough batches), no any/unknown); "
            "one evaluation = one case whose argument expression really has the declared type; distinct = FNV of (template, printed argument annotations); non-trivial = argument ASTs have >= 2 nodes in total; "
            "admissible = exact instantiation, or equal after widening literals and expanding aliases on both sides",
    "min_nontrivial": {"quick": 60000, "thorough": 1000000},
    "max_secs": {"quick": 600, "thorough": 1500},
    "require_clauses": ["template:id", "template:array-of", "template:elem", "template:mk-table", "template:value-of", "template:key-of", "template:optional", "template:pair", "template:dup", "template:call", "template:elem-of-tuple", "template:ret-fun", "template:param-fun", "template:elem2", "held:exact", "held:modulo-widening-or-alias"],
    "assumptions": COMMON_ASSUME + [
        "arguments are typed locals without initialiser; cases where the analyzer reports another type for the argument expression are inconclusive",
        "literal widening and alias transparency are not fixed by the statement: both forms are accepted at every position",
    ],
    "level_text": "Each case is a small Lua program analysed by the real analyzer; expectation computed on the real argument types. Exploration over ~2*10^4 (quick) to ~10^6 (thorough) cases.",
    "level_note": "Template family is small by design; overloads, methods, varargs and constraints are out of scope.",
}
