from props_common import COMMON_ASSUME

PROP = {
    "title": "The server never deadlocks",
    "engine": "E2",
    "level": "exploration",
    "technique": "runtime monitor over a recorded lock trace (hook H3: request/acquire/release per task): observed stalls in virtual time + lockdep-style predictive checker (re-acquisition while held, cycles in the requested-while-holding graph) under seeded schedule points",
    "design_ref": "§4 C28",
    "rule": "cases = generated scripts of 10-45 messages (document notifications, 26 request kinds, watched-file events incl. .emmyrc.json reloads, didChangeConfiguration, didSave with reindex, cancels, pull and push diagnostics clients) run on the real dispatch with traced locks and seeded yields at every lock request; "
            "clauses: no inline dispatch stalls for 900 virtual seconds, locks available and no request pending at quiescence, no lock requested while already held by the task, requested-while-holding graph acyclic; distinct = hash of the lock-event interleaving; non-trivial = >= 30 lock events",
    "min_nontrivial": {"quick": 900, "thorough": 60000},
    "max_secs": {"quick": 600, "thorough": 1500},
    "require_clauses": ["trace-checked", "lock-events"],
    "assumptions": COMMON_ASSUME + ["lock identity = the protected value's type (one instance of each per server)", "cooperative single-thread scheduling with seeded yields; the order graph predicts deadlocks of interleavings that were not produced, but only over lock sites the workload reached (listed in evidence as lock_sites_covered)", "no TLA+ model is built (different technique family)"],
    "level_text": "Every lock acquisition of the real server code is traced; ~2k (quick) scripts produce ~10^6 lock events whose nesting is checked for re-entrancy and order cycles, and the simulator detects an actually wedged server in virtual time.",
    "level_note": "A deadlock that needs a lock site no script reaches is invisible; site coverage is reported. Liveness is restated as bounded progress (900 virtual seconds).",
}
