import glob
import os
import re
import subprocess
import time

from props_common import COMMON_ASSUME

PROP = {
    "title": "Concurrent read-only queries are race-free",
    "engine": "E4",
    "level": "exploration",
    "technique": "sanitizer + runtime monitor: 16 threads query one shared analysis — differential oracle against the sequential answers (every tier) and ThreadSanitizer (-Zsanitizer=thread, -Zbuild-std) on the same workload (thorough tier); plus a compile-time Send+Sync probe of the analysis components",
    "design_ref": "§4 C38",
    "rule": "cases = generated multi-file workspaces (classes split across files, globals, requires, enums, library roots); one Arc<EmmyLuaAnalysis>; 16 threads x shuffled (file x {semantic dump of every token, diagnose_file, module lookup + semantic model}) x 6 (quick) / 12 (thorough) repetitions, every answer compared with the sequential one; "
            "thorough: the same binary built with ThreadSanitizer, 3 repetitions, reports with an in-repo frame are violations; distinct = workspace fingerprint; non-trivial = >= 100 concurrent queries on it",
    "min_nontrivial": {"quick": 20, "thorough": 200},
    "max_secs": {"quick": 600, "thorough": 1500},
    "shards": {"quick": 4, "thorough": 8},
    "require_clauses": ["differential-checked", "concurrent-queries"],
    "no_replay_confirm": True,
    "assumptions": COMMON_ASSUME + [
        "a data race has no deterministic replay: violations of this check are reported without the isolated re-run",
        "the Send+Sync probe is a compile-time observation, not runtime monitoring; it is reported separately in the evidence (static_probe)",
        "ThreadSanitizer sees tokio/std synchronisation; mimalloc is kept out of the instrumented binary (vtsan uses the system allocator)",
    ],
    "level_text": "Real &self query API of one shared analysis under 16-thread contention, ~50k (quick) concurrent queries each compared with its sequential answer; thorough adds a ThreadSanitizer build of the same workload.",
    "level_note": "TSan only reports races on executed paths; the quick tier has no sanitizer (build takes minutes).",
}

VERIF = os.path.dirname(os.path.dirname(os.path.dirname(os.path.abspath(__file__))))


def _probe(check):
    """Returns (status, text): 'compiled' | 'failed-probe' | 'failed-other'."""
    rc, out = check.run_build(["cargo", "check", "--offline", "--target-dir", os.path.join(check.TARGET, "probe")],
                              os.path.join(VERIF, "harness-probe"), "send-sync-probe")
    if rc == 0:
        return "compiled", ""
    if re.search(r"cannot be (sent|shared) between threads safely", out) and "harness-probe/src/lib.rs" in out:
        return "failed-probe", out
    return "failed-other", out


def _tsan(check, pid, seed, reps):
    tdir = os.path.join(check.TARGET, "tsan")
    env = {"RUSTFLAGS": "-Zsanitizer=thread"}
    rc, out = check.run_build(["cargo", "+nightly", "build", "-Zbuild-std", "--target", "x86_64-unknown-linux-gnu", "--release",
                               "--bin", "vtsan", "--offline", "--target-dir", tdir], check.HARNESS_DIR, "tsan", env)
    if rc != 0:
        return None, "tsan-build-failed: " + out[-800:]
    exe = os.path.join(tdir, "x86_64-unknown-linux-gnu", "release", "vtsan")
    logdir = os.path.join(check.WORK, f"tsan-{os.getpid()}")
    os.makedirs(logdir, exist_ok=True)
    reports = []
    runs = 0
    for r in range(reps):
        e = check.env_offline()
        e["TSAN_OPTIONS"] = f"halt_on_error=0 exitcode=0 log_path={logdir}/tsan second_deadlock_stack=1"
        outf = os.path.join(logdir, f"run{r}.json")
        p = subprocess.run([exe, pid, "--seed", str(seed * 31 + r), "--shard", "0", "--nshards", "1", "--tier", "quick", "--scale", "0.5", "--out", outf],
                           env=e, cwd=logdir, stdout=subprocess.PIPE, stderr=subprocess.STDOUT, text=True, timeout=3600)
        runs += 1
    for f in glob.glob(os.path.join(logdir, "tsan.*")):
        txt = open(f, errors="replace").read()
        for block in txt.split("==================")[1:]:
            if "WARNING: ThreadSanitizer" in block:
                reports.append(block)
    return (runs, reports, logdir), None


def custom(check, pid, cfg, tier, seed):
    status, text = _probe(check)
    extra_viol = []
    if status == "failed-probe":
        rp = os.path.join(VERIF, "replays", f"{pid}-static-probe.txt")
        os.makedirs(os.path.dirname(rp), exist_ok=True)
        open(rp, "w").write(text)
        extra_viol.append({"sig": "C38:static-probe:component-not-send-sync", "detail": "the Send+Sync probe of the analysis components no longer compiles: " + text[-600:], "replay": {"compiler_output": rp}, "confirmed": True})
    elif status == "failed-other":
        print(f"INCONCLUSIVE property={pid} reason=probe-build-failed-for-another-reason")
        return 2
    run = check.run_sharded(pid, cfg, tier, seed)
    tsan_info = {"tsan": "not run in the quick tier"}
    if tier == "thorough":
        res, err = _tsan(check, pid, seed, 3)
        if err:
            print(f"INCONCLUSIVE property={pid} reason={err[:300]}")
            return 2
        runs, reports, logdir = res
        in_repo = [b for b in reports if "/repo/crates/" in b]
        # de-duplicate by the first two in-repo frames
        seen = {}
        for b in in_repo:
            frames = re.findall(r"#\d+ (\S+) .*?/repo/crates/(\S+?):\d+", b)
            key = "|".join(f"{fn}" for fn, _ in frames[:2]) or "unknown"
            seen.setdefault(key, b)
        for key, b in seen.items():
            kind = "data-race" if "data race" in b else ("lock-order-inversion" if "lock-order" in b else "other")
            extra_viol.append({"sig": f"C38:tsan:{kind}:{key[:120]}", "detail": b[:1500], "replay": {"tsan_log_dir": logdir}, "confirmed": True})
        tsan_info = {"tsan_runs": runs, "tsan_reports_total": len(reports), "tsan_reports_in_repo": len(in_repo)}
    # hand the extra facts to the evidence through a fake shard result
    run["results"].append({"evaluations": 0, "fps": [], "clauses": {}, "inconclusive": {}, "sig_counts": {}, "violations": [], "samples": [],
                           "extra": dict({"static_probe": status}, **{k: v for k, v in tsan_info.items()})})
    run["nshards"] += 1
    return check.aggregate(pid, cfg, tier, seed, run, extra_viol)


def EXTRA_BUILD(check):
    status, _ = _probe(check)
    return status != "failed-other"
