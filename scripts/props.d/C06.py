from props_common import COMMON_ASSUME

PROP = {
    "title": "Formatting is idempotent",
    "engine": "E1+E3",
    "level": "exploration",
    "technique": "runtime monitor: fmt(fmt(x)) == fmt(x) in-process on generated / corpus inputs x generated configurations; "
                 "real `luafmt --write` followed by `luafmt --check` on materialised directories",
    "design_ref": "§4 C06",
    "rule": "same case stream as C05 (G-valid programs, corpus snippets, std files, mutants, doc-heavy blocks, seeds, lines within +-3 columns of max_line_width) x LuaFormatConfig; "
            "distinct = FNV of (text, config); non-trivial = first pass changed the input and produced >= 16 bytes; "
            "CLI clause: directories of 3-12 of those inputs with one generated config file, 2 per shard (quick) / 13 per shard (thorough)",
    "min_nontrivial": {"quick": 3000, "thorough": 100000},
    "max_secs": {"quick": 600, "thorough": 1500},
    "require_clauses": ["a:second-pass-equal", "b:cli-check-after-write", "changed-by-formatting",
                        "family:g-valid", "family:corpus", "family:std-file", "family:doc-heavy", "family:seed", "family:near-width"],
    "needs_repo_bins": True,
    "assumptions": COMMON_ASSUME + ["the CLI clause uses the luafmt binary built from the checked tree by the driver ($VERIF_TARGET/repo-bins/release/luafmt)"],
    "level_text": "Each generated input is formatted three times by the real formatter and the second and first results are compared byte for byte; "
                  "a sample of inputs additionally goes through the shipped luafmt binary (--write, then --check must exit 0 and leave files untouched). Exploration, not proof.",
    "level_note": "A non-idempotent result is classified as 2-cycle / converges-on-pass-2 / drift and by the syntax kind enclosing the first differing byte.",
}
