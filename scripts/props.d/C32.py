from props_common import COMMON_ASSUME

PROP = {
    "title": "Configuration merging is deterministic and later files win",
    "engine": "E1",
    "level": "exploration",
    "technique": "runtime monitor: load_configs in this process and in fresh child processes (hash seeds resampled) compared with each other and with a reference merge model",
    "design_ref": "§4 C32",
    "rule": "cases = ordered lists of 2-3 valid configuration documents over the key space harvested from resources/schema.json in which 1-3 settings are set by "
            "several documents in flat / nested / mixed spellings (family merge), or documents with keys that are both a value and a prefix (family collision, "
            "determinism clause only); every case is loaded 3x in the worker and once in each of P = 8 (quick) / 16 (thorough) fresh processes; "
            "distinct = FNV of the document list (held or refuted); non-trivial = at least one shared setting or a collision",
    "min_nontrivial": {"quick": 1500, "thorough": 20000},
    "max_secs": {"quick": 600, "thorough": 1500},
    "require_clauses": ["1:determinism", "2:merge-model", "family:merge", "family:collision"],
    "assumptions": COMMON_ASSUME + [
        "reference model: every document normalised to nested keys, folded left; objects merged, scalars overwritten by the later document, arrays = earlier ++ (later minus already present); "
        "read through the same serde types as the real loader; accepted with and without pruning empty objects (the statement does not say whether an empty section equals an absent one)",
        "documents set a setting at most once and arrays have no duplicates inside one document, so the model is unambiguous",
        "a case whose every load panics is counted as deterministic here (the panic is C31's finding)",
    ],
    "level_text": "Each generated file list is loaded repeatedly in fresh processes and compared with a model written from the property statement. "
                  "16 x 400 cases x 11 loads (quick), 16 x 4 000 x 19 loads (thorough). Exploration, not proof.",
    "level_note": "Hash-seed dependence is sampled (11 / 19 loads per case), not enumerated; Lua configuration files are not part of this check.",
}
