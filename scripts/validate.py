#!/usr/bin/env python3
"""Validate MANIFEST.json and evidence/*.json against the schemas in /root/.vp."""
import json, sys, glob, os
try:
    import jsonschema
except ImportError:
    sys.path.insert(0, "/opt/veriftools/pyvenv/lib/python3.11/site-packages")
    import jsonschema
V = os.path.dirname(os.path.dirname(os.path.abspath(__file__)))
ms = json.load(open("/root/.vp/MANIFEST.schema.json"))
es = json.load(open("/root/.vp/EVIDENCE.schema.json"))
jsonschema.validate(json.load(open(f"{V}/MANIFEST.json")), ms)
print("MANIFEST ok")
for f in sorted(glob.glob(f"{V}/evidence/*.json")):
    try:
        jsonschema.validate(json.load(open(f)), es)
        print("ok", f)
    except Exception as e:
        print("BAD", f, str(e)[:300])
