"""Shared bits for scripts/props.d/*.py"""

COMMON_ASSUME = [
    "harness generators and oracles are correct (cross-checked where a second opinion exists, see DESIGN.md §9)",
    "release profile, x86-64 Linux; verdict covers only the executions produced by this run's seeds",
]
