#!/bin/bash
# usage: try_mutant.sh <patch.diff> <PROP> [tier] [seed]
# applies the patch to /repo, runs the check, restores /repo. Prints the verdict line(s).
PATCH=$1; P=$2; TIER=${3:-quick}; SEED=${4:-1}
cd /repo || exit 2
if ! git diff --quiet; then echo "REPO DIRTY - abort"; exit 2; fi
git apply "$PATCH" || { echo "PATCH DOES NOT APPLY"; exit 2; }
cd /verif
VERIF_SEED=$SEED ./check $P --tier $TIER > /tmp/mut.$P.out 2>&1; rc=$?
cd /repo && git checkout -- . && git clean -fdq crates
echo "rc=$rc"; grep -E "^VIOLATION|^  signature|HELD|INCONCL|KNOWN" /tmp/mut.$P.out | cut -c1-260 | head -12
