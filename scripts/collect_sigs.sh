#!/bin/bash
# usage: collect_sigs.sh <PROP> <tier> <seed>...   -> prints all violation signatures seen (from the evidence file)
P=$1; T=$2; shift 2
for s in "$@"; do
  VERIF_SEED=$s ./check $P --tier $T > /tmp/collect.$P.$T.$s.out 2>&1
  python3 - "$P" <<'PY'
import json,sys
e=json.load(open(f'/verif/evidence/{sys.argv[1]}.json'))
for k,v in sorted(e['coverage'].get('violation_signatures',{}).items()): print(v,k)
PY
done
