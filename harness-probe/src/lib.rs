//! C38, last clause: "every type the shared analysis holds is genuinely thread-safe without
//! relying on unchecked assertions". `EmmyLuaAnalysis` and `SemanticModel` carry
//! `unsafe impl Send/Sync`; this probe asks the compiler whether the COMPONENTS are
//! `Send + Sync` on their own. It is a build-time observation (not runtime monitoring): if
//! this crate stops compiling, some component has become thread-unsafe behind the unsafe impl.
use emmylua_code_analysis::*;

fn assert_send_sync<T: Send + Sync>() {}

pub fn probe() {
    assert_send_sync::<LuaCompilation>();
    assert_send_sync::<DbIndex>();
    assert_send_sync::<Vfs>();
    assert_send_sync::<LuaDiagnostic>();
    assert_send_sync::<Emmyrc>();
    assert_send_sync::<LuaDeclIndex>();
    assert_send_sync::<LuaReferenceIndex>();
    assert_send_sync::<LuaTypeIndex>();
    assert_send_sync::<LuaModuleIndex>();
    assert_send_sync::<LuaMemberIndex>();
    assert_send_sync::<LuaPropertyIndex>();
    assert_send_sync::<LuaSignatureIndex>();
    assert_send_sync::<DiagnosticIndex>();
    assert_send_sync::<LuaOperatorIndex>();
    assert_send_sync::<LuaFlowIndex>();
    assert_send_sync::<LuaDependencyIndex>();
    assert_send_sync::<LuaMetatableIndex>();
    assert_send_sync::<LuaGlobalIndex>();
    assert_send_sync::<JsonSchemaIndex>();
}
