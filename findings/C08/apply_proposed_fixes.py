#!/usr/bin/env python3
"""Applies the proposed fixes to a copy of the repository: apply_fixes.py <repo-root> [fix1 fix2 ...]"""
import sys
root = sys.argv[1]
which = set(sys.argv[2:]) or {"c11-sort", "c08-module", "c08-property"}
base = root + "/crates/emmylua_code_analysis/src/"

def sub(path, old, new):
    s = open(base + path).read()
    assert s.count(old) == 1, (path, old[:60], s.count(old))
    open(base + path, "w").write(s.replace(old, new))

if "c11-sort" in which:
    sub("lib.rs", '''        self.compilation
            .remove_index(removed_files.into_iter().collect());
        let updated_files: Vec<FileId> = updated_files.into_iter().collect();
        self.compilation.update_index(updated_files.clone());
        updated_files
    }

    #[allow(unused)]''', '''        // analyse in file-id (= registration) order: the iteration order of the hash sets must
        // not influence the results
        let mut removed_files: Vec<FileId> = removed_files.into_iter().collect();
        removed_files.sort();
        self.compilation.remove_index(removed_files);
        let mut updated_files: Vec<FileId> = updated_files.into_iter().collect();
        updated_files.sort();
        self.compilation.update_index(updated_files.clone());
        updated_files
    }

    #[allow(unused)]''')

if "c08-module" in which:
    s = open(base + "db_index/module/mod.rs").read()
    a = s.index("impl LuaIndex for LuaModuleIndex {\n    fn remove(&mut self, file_id: FileId) {")
    b = s.index("    fn clear(&mut self) {", a)
    new = '''impl LuaIndex for LuaModuleIndex {
    fn remove(&mut self, file_id: FileId) {
        let Some(module_info) = self.file_module_map.remove(&file_id) else {
            return;
        };

        // fuzzy-name map (always, whatever happens to the module tree below)
        if let Some(file_ids) = self.module_name_to_file_ids.get_mut(&module_info.name) {
            file_ids.retain(|id| *id != file_id);
            if file_ids.is_empty() {
                self.module_name_to_file_ids.remove(&module_info.name);
            }
        }

        // module tree: drop the file from its node, then prune every node that became empty,
        // including the leaf itself, up to (but excluding) the root
        let mut current_id = module_info.module_id;
        match self.module_nodes.get_mut(&current_id) {
            Some(node) => node.file_ids.retain(|id| *id != file_id),
            None => return,
        }
        while current_id != self.module_root_id {
            let parent_id = match self.module_nodes.get(&current_id) {
                Some(node) if node.file_ids.is_empty() && node.children.is_empty() => node.parent,
                _ => break,
            };
            self.module_nodes.remove(&current_id);
            let Some(parent_id) = parent_id else {
                break;
            };
            if let Some(parent) = self.module_nodes.get_mut(&parent_id) {
                parent.children.retain(|_, child_id| *child_id != current_id);
            }
            current_id = parent_id;
        }
    }

'''
    open(base + "db_index/module/mod.rs", "w").write(s[:a] + new + s[b:])

if "c08-property" in which:
    sub("db_index/property/mod.rs", '''        self.in_filed_owner
            .entry(file_id)
            .or_default()
            .insert(source_owner_id);

        Some(())''', '''        // both owners share the property: remember both, so that `remove` also drops the
        // `same_property_owner_id -> property` mapping
        let owners = self.in_filed_owner.entry(file_id).or_default();
        owners.insert(source_owner_id);
        owners.insert(same_property_owner_id);

        Some(())''')
    sub("db_index/property/mod.rs", '''        self.property_owners_map
            .insert(same_property_owner_id, property_id);
''', '''        self.property_owners_map
            .insert(same_property_owner_id.clone(), property_id);
''')
